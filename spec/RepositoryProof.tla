--------------------------- MODULE RepositoryProof ---------------------------
(***************************************************************************)
(* Unbounded part of C07's design argument: for ANY sets of writers and    *)
(* readers the lock discipline of Repository (the tree lock is only held   *)
(* inside the writer lock and excludes readers) and "the tree is searched  *)
(* under the read lock" are inductive.  Checked by TLAPS (tlapm), one      *)
(* obligation per action.  The actions are the guard/effect pairs of       *)
(* Repository.tla - the same operators the trace specification applies to  *)
(* the events recorded from repository_impl.go.                            *)
(***************************************************************************)
EXTENDS Repository, TLAPS

CONSTANTS Writers, Readers, Trees

ASSUME Procs == /\ Writers \cap Readers = {}
                /\ None \notin Writers \cup Readers

VARIABLES st, pc

vars == <<st, pc>>

Fields == {"kmu", "tmu", "readers", "cur", "published", "content", "tmp", "snap"}

WPcs == {"idle", "locked", "cloned", "mutated", "tlocked", "swapped", "tunlocked"}
RPcs == {"idle", "rlocked", "searched"}

Init ==
  /\ \E t0 \in Trees : st = InitState(t0, Writers)
  /\ pc = [p \in Writers \cup Readers |-> "idle"]

Go(p, to) == pc' = [pc EXCEPT ![p] = to]

KLock(w)   == pc[w] = "idle"      /\ GKLock(st, w) /\ st' = EKLock(st, w) /\ Go(w, "locked")
Clone(w)   == pc[w] = "locked"    /\ \E t \in Trees : GClone(st, w, st.cur, t) /\ st' = EClone(st, w, st.cur, t) /\ Go(w, "cloned")
Mutate(w)  == pc[w] = "cloned"    /\ \E s \in Writers, v \in Nat : GMutate(st, w, st.tmp[w]) /\ st' = EMutate(st, w, st.tmp[w], s, v)
                                  /\ (Go(w, "cloned") \/ Go(w, "mutated"))
Fail(w)    == pc[w] = "cloned"    /\ st' = st /\ Go(w, "tunlocked")
TLock(w)   == pc[w] = "mutated"   /\ GTLock(st, w) /\ st' = ETLock(st, w) /\ Go(w, "tlocked")
Swap(w)    == pc[w] = "tlocked"   /\ GSwap(st, w, st.tmp[w]) /\ st' = ESwap(st, w, st.tmp[w]) /\ Go(w, "swapped")
TUnlock(w) == pc[w] = "swapped"   /\ GTUnlock(st, w) /\ st' = ETUnlock(st, w) /\ Go(w, "tunlocked")
KUnlock(w) == pc[w] = "tunlocked" /\ GKUnlock(st, w) /\ st' = EKUnlock(st, w) /\ Go(w, "idle")

RLock(r)   == pc[r] = "idle"      /\ GRLock(st, r) /\ st' = ERLock(st, r) /\ Go(r, "rlocked")
Search(r)  == pc[r] = "rlocked"   /\ GSearch(st, r, st.cur) /\ st' = ESearch(st, r, st.cur) /\ Go(r, "searched")
RUnlock(r) == pc[r] = "searched"  /\ GRUnlock(st, r) /\ st' = ERUnlock(st, r) /\ Go(r, "idle")

WNext(w) == KLock(w) \/ Clone(w) \/ Mutate(w) \/ Fail(w) \/ TLock(w) \/ Swap(w) \/ TUnlock(w) \/ KUnlock(w)
RNext(r) == RLock(r) \/ Search(r) \/ RUnlock(r)
Next == (\E w \in Writers : WNext(w)) \/ (\E r \in Readers : RNext(r))

Spec == Init /\ [][Next]_vars

(* ------------------------------------------------------------------------ *)
Shape ==
  /\ DOMAIN st = Fields
  /\ st.kmu \in Writers \cup {None}
  /\ st.tmu \in Writers \cup {None}
  /\ st.readers \subseteq Readers
  /\ pc \in [Writers \cup Readers -> WPcs \cup RPcs]

Holds ==
  /\ \A w \in Writers : st.kmu = w <=> pc[w] # "idle"
  /\ \A w \in Writers : st.tmu = w <=> pc[w] \in {"tlocked", "swapped"}
  /\ \A r \in Readers : r \in st.readers <=> pc[r] # "idle"

IndInv == Shape /\ Holds /\ LockDiscipline(st)

(* what C07 needs from it *)
SearchUnderLock == \A r \in Readers : pc[r] = "rlocked" => r \in st.readers /\ st.tmu = None
Safe == LockDiscipline(st) /\ SearchUnderLock

LEMMA InitInd == Init => IndInv
  BY Procs DEF Init, IndInv, Shape, Holds, LockDiscipline, InitState, Fields, WPcs, RPcs, None

LEMMA StepInd == IndInv /\ [Next]_vars => IndInv'
<1> SUFFICES ASSUME IndInv, [Next]_vars PROVE IndInv'
  OBVIOUS
<1> USE Procs DEF IndInv, Shape, Holds, LockDiscipline, Fields, WPcs, RPcs, None, Go
<1>1. ASSUME NEW w \in Writers, KLock(w) PROVE IndInv'
  BY <1>1 DEF KLock, GKLock, EKLock
<1>2. ASSUME NEW w \in Writers, Clone(w) PROVE IndInv'
  BY <1>2 DEF Clone, GClone, EClone, Put
<1>3. ASSUME NEW w \in Writers, Mutate(w) PROVE IndInv'
  BY <1>3 DEF Mutate, GMutate, EMutate
<1>4. ASSUME NEW w \in Writers, Fail(w) PROVE IndInv'
  BY <1>4 DEF Fail
<1>5. ASSUME NEW w \in Writers, TLock(w) PROVE IndInv'
  BY <1>5 DEF TLock, GTLock, ETLock
<1>6. ASSUME NEW w \in Writers, Swap(w) PROVE IndInv'
  BY <1>6 DEF Swap, GSwap, ESwap
<1>7. ASSUME NEW w \in Writers, TUnlock(w) PROVE IndInv'
  BY <1>7 DEF TUnlock, GTUnlock, ETUnlock
<1>8. ASSUME NEW w \in Writers, KUnlock(w) PROVE IndInv'
  BY <1>8 DEF KUnlock, GKUnlock, EKUnlock
<1>9. ASSUME NEW r \in Readers, RLock(r) PROVE IndInv'
  BY <1>9 DEF RLock, GRLock, ERLock
<1>10. ASSUME NEW r \in Readers, Search(r) PROVE IndInv'
  BY <1>10 DEF Search, GSearch, ESearch, Put
<1>11. ASSUME NEW r \in Readers, RUnlock(r) PROVE IndInv'
  BY <1>11 DEF RUnlock, GRUnlock, ERUnlock
<1>12. CASE UNCHANGED vars
  BY <1>12 DEF vars
<1> QED
  BY <1>1, <1>2, <1>3, <1>4, <1>5, <1>6, <1>7, <1>8, <1>9, <1>10, <1>11, <1>12 DEF Next, WNext, RNext

LEMMA IndSafe == IndInv => Safe
  BY Procs DEF IndInv, Shape, Holds, LockDiscipline, Safe, SearchUnderLock, None

THEOREM Spec => []Safe
<1>1. Spec => []IndInv
  BY InitInd, StepInd, PTL DEF Spec
<1> QED
  BY <1>1, IndSafe, PTL
=============================================================================
