SPECIFICATION Spec
CONSTANTS
  Ids <- MCIds
  Rules <- MCRules
  Catalogue <- MCCatalogue
  Overrides <- MCOverrides
  Procs <- MCProcs
  MaxExec = 2
  Mutant = "none"
INVARIANTS TypeOK Frozen Local NoRace
PROPERTY FrozenStep
CHECK_DEADLOCK FALSE
