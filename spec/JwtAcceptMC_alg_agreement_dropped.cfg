SPECIFICATION Spec
CONSTANTS Mutant = "alg_agreement_dropped"
  Full = FALSE
INVARIANTS InvTypes InvSignature InvUnsigned InvAlgKey InvAlgAllowed InvIssuer InvAudience InvScopes InvValidity InvKidUnique InvMerge InvRefines InvVerdict
CHECK_DEADLOCK FALSE
