SPECIFICATION Spec
CONSTANT Mutant = "alg_agreement_dropped"
INVARIANTS InvTypes InvSignature InvUnsigned InvAlgKey InvAlgAllowed InvIssuer InvAudience InvScopes InvValidity InvKidUnique InvMerge InvRefines InvVerdict
CHECK_DEADLOCK FALSE
