SPECIFICATION Spec
CONSTANTS Writers = {1, 2}
  Readers = {11, 12}
  OpsPerWriter = 2
  Lookups = 2
  Mutant = "early_runlock"
INVARIANTS InvLocks InvPublishedImmutable InvAtomicReads InvNoLostUpdate InvSearchUnderLock
CHECK_DEADLOCK TRUE
