------------------------------- MODULE CacheKey -------------------------------
(***************************************************************************)
(* C11 - cached results are reused exactly for requests equal in all they  *)
(* depend on.                                                              *)
(*                                                                         *)
(* An evaluation of a caching mechanism is e = [mech, policy, inputs]:     *)
(* the mechanism (kind + identity/endpoint), the rule-level assertions /   *)
(* expressions in force, and the tuple of everything else the result       *)
(* depends on (subject, rendered payload and values, presented credential, *)
(* ...).  Reference semantics:  Eval(e) is a Hit iff an entry with EQUAL   *)
(* (mech, policy, inputs) was stored within the TTL; otherwise a Miss      *)
(* followed by a remote call and a store.  The two directions of the       *)
(* statement are                                                           *)
(*   NoCrossReuse    a result served from cache was computed for an equal  *)
(*                   evaluation (or a fresh evaluation yields the same)    *)
(*   ReuseWhenEqual  an evaluation equal to one stored within the TTL is a *)
(*                   hit and the remote system is not called again         *)
(* An implementation derives a key; the reference semantics is what an     *)
(* injective, deterministic key gives.  KeyOf lists the ideal key and the  *)
(* realistic defective ones (negative controls).                           *)
(***************************************************************************)
EXTENDS Integers, Sequences, FiniteSets

Triple(e) == <<e.mech, e.policy, e.inputs>>

(* reference semantics on a store of [e, at] records *)
RefHit(store, e, now, ttl) == \E r \in store : Triple(r.e) = Triple(e) /\ now <= r.at + ttl

(* Flatten a sequence of strings-as-sequences without delimiters *)
RECURSIVE Concat(_)
Concat(ss) == IF ss = <<>> THEN <<>> ELSE Head(ss) \o Concat(Tail(ss))

(* key derivations: salt models incidental nondeterminism (map iteration order) *)
KeyOf(fn, e, salt) ==
  CASE fn = "ideal" -> <<"k", e.mech, e.policy, e.inputs>>
    [] fn = "omit_policy" -> <<"k", e.mech, e.inputs>>              \* policy applied before caching only
    [] fn = "omit_input" -> <<"k", e.mech, e.policy, Head(e.inputs)>> \* e.g. subject hash dropped
    [] fn = "concat" -> <<"k", e.mech, e.policy, Concat(e.inputs)>>  \* components joined without delimiters
    [] fn = "unstable" -> <<"k", e.mech, e.policy, e.inputs, salt>>  \* iteration order enters the key

(* what the statement demands of one observed evaluation.  exp: the reference  *)
(* semantics says Hit; hit/remote: observed; same: the result equals the one a *)
(* fresh evaluation yields for this request                                    *)
ReuseOK(exp, hit, remote) == exp => (hit /\ remote = 0)
NoCrossOK(exp, hit, same) == (hit /\ ~exp) => same
=============================================================================
