---------------------------- MODULE EntryPointsMC ----------------------------
(***************************************************************************)
(* Design run: for each entry point a request context is created, the rule *)
(* executor obtains the request (logging), the lookup matches and stores   *)
(* the captures, then up to three mechanisms read the view.  ViewStable:   *)
(* every read after the match returns the captures written by the match.   *)
(***************************************************************************)
EXTENDS EntryPoints, TLC

CONSTANT Impl   \* entry -> "cached" | "rebuilt"

ImplCached == [e \in Entries |-> "cached"]
ImplEnvoyRebuilt == [e \in Entries |-> IF e = "envoy" THEN "rebuilt" ELSE "cached"]

VARIABLES entry, ctx, pc, reads, seen

vars == <<entry, ctx, pc, reads, seen>>

Caps == {<<>>, <<<<"id", "42">>>>, <<<<"id", "42">>, <<"rest", "a/b">>>>}

Init == entry \in Entries /\ ctx = NewCtx("wire") /\ pc = "created" /\ reads = 0 /\ seen = {}

Analyze ==   \* rule executor logs method and URL before the lookup
  /\ pc = "created"
  /\ ctx' = Request(Impl[entry], ctx)[1] /\ pc' = "analyzed" /\ UNCHANGED <<entry, reads, seen>>

DoMatch ==
  /\ pc = "analyzed"
  /\ \E c \in Caps : ctx' = Match(Impl[entry], ctx, c) /\ seen' = {c}
  /\ pc' = "matched" /\ UNCHANGED <<entry, reads>>

DoRead ==
  /\ pc = "matched" /\ reads < 3
  /\ LET r == Read(Impl[entry], ctx) IN ctx' = r[1] /\ seen' = seen \cup {r[2]}
  /\ reads' = reads + 1 /\ UNCHANGED <<entry, pc>>

Next == Analyze \/ DoMatch \/ DoRead

Spec == Init /\ [][Next]_vars

ViewStable == Cardinality(seen) <= 1
=============================================================================
