SPECIFICATION Spec
CONSTANT Mutant = "no_applicable_nil"
INVARIANTS InvSafety InvUpstream InvNoSwallow InvTypes InvNegativeStatus
CHECK_DEADLOCK FALSE
