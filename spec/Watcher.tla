------------------------------- MODULE Watcher -------------------------------
(***************************************************************************)
(* The secrets watcher (internal/watcher/watcher_impl.go) with its         *)
(* listeners - the component behind every hot reload of a key store, of    *)
(* the TLS material and of the redis credentials.                          *)
(*                                                                         *)
(* One watch loop (`startWatching`) takes events from fsnotify: a write    *)
(* event fires `OnChanged` of every listener registered for the file, each *)
(* in a goroutine of its own (`go listener.OnChanged(...)`); an error is   *)
(* logged.  A listener call reads the file (Read) and, some time later,    *)
(* installs what it read (Swap).  inotify merges a new event into the one  *)
(* at the tail of its queue when the two are identical.                    *)
(*                                                                         *)
(* Guarantees stated here:                                                 *)
(*   LoadedWasWritten  a listener only ever holds a version that was       *)
(*                     written;                                            *)
(*   NotifiedOfLast    at quiescence every listener of a file was called   *)
(*                     at least once after the last write completed, i.e.  *)
(*                     some call read the final content - the watcher      *)
(*                     neither stops nor loses the last notification,      *)
(*                     errors of fsnotify included;                        *)
(*   Quiesces          the system comes to rest (no call hangs).           *)
(* And one guarantee the design of heimdall does NOT give: with one        *)
(* goroutine per event two calls may finish in the other order, so the     *)
(* content installed last need not be the last one written (`Converged`    *)
(* holds for the variant "serial" only; for "per_event", heimdall's        *)
(* variant, TLC shows the overtaking).  No listed property demands it (C16 *)
(* and C19 speak of the key in effect, not of its freshness).              *)
(***************************************************************************)
EXTENDS Naturals, Sequences, FiniteSets, TLC

CONSTANTS Files,        \* watched files
          Listeners,    \* listener ids
          Reg,          \* [Listeners -> Files]: the file a listener is registered for
          MaxWrites,    \* bound on writes per file
          MaxErrors,    \* bound on fsnotify errors
          Variant       \* "per_event" (heimdall) | "serial" | mutants: "drop_while_busy", "stops_on_error", "first_listener_only"

VARIABLES file,      \* [Files -> Nat]: version on disk = number of completed writes
          queue,     \* pending fsnotify events: <<"W", f>> or <<"E">>
          calls,     \* set of running listener calls [id, l, pc, seen]
          loaded,    \* [Listeners -> Nat]: version a listener has installed
          maxSeen,   \* [Listeners -> Nat]: newest version any call of the listener has read (history)
          watching,  \* the watch loop is running
          nextId, errs

vars == <<file, queue, calls, loaded, maxSeen, watching, nextId, errs>>

Init ==
  /\ file = [f \in Files |-> 0]
  /\ queue = <<>>
  /\ calls = {}
  /\ loaded = [l \in Listeners |-> 0]
  /\ maxSeen = [l \in Listeners |-> 0]
  /\ watching = TRUE
  /\ nextId = 1
  /\ errs = 0

(* a write completes; inotify appends an event unless an identical one is the tail of the queue *)
Write(f) ==
  /\ file[f] < MaxWrites
  /\ file' = [file EXCEPT ![f] = @ + 1]
  /\ queue' = IF queue # <<>> /\ queue[Len(queue)] = <<"W", f>> THEN queue ELSE Append(queue, <<"W", f>>)
  /\ UNCHANGED <<calls, loaded, maxSeen, watching, nextId, errs>>

FsError ==
  /\ errs < MaxErrors
  /\ errs' = errs + 1
  /\ queue' = Append(queue, <<"E">>)
  /\ UNCHANGED <<file, calls, loaded, maxSeen, watching, nextId>>

ListenersOf(f) ==
  LET ls == {l \in Listeners : Reg[l] = f}
  IN IF Variant = "first_listener_only" /\ ls # {} THEN {CHOOSE l \in ls : \A m \in ls : l <= m} ELSE ls

(* the watch loop takes the next event *)
Dispatch ==
  /\ watching
  /\ queue # <<>>
  /\ Variant = "serial" => calls = {}       \* a serial watcher calls the listeners itself and waits for them
  /\ LET e == Head(queue) IN
       /\ queue' = Tail(queue)
       /\ IF e[1] = "E"
          THEN /\ watching' = (Variant # "stops_on_error")
               /\ UNCHANGED <<calls, nextId>>
          ELSE /\ watching' = watching
               /\ IF Variant = "drop_while_busy" /\ calls # {}
                  THEN UNCHANGED <<calls, nextId>>
                  ELSE LET ls == ListenersOf(e[2])
                           ids == [l \in ls |-> nextId + Cardinality({m \in ls : m < l})]
                       IN /\ calls' = calls \cup {[id |-> ids[l], l |-> l, pc |-> "read", seen |-> 0] : l \in ls}
                          /\ nextId' = nextId + Cardinality(ls)
  /\ UNCHANGED <<file, loaded, maxSeen, errs>>

Read(c) ==
  /\ c.pc = "read"
  /\ LET v == file[Reg[c.l]] IN
       /\ calls' = (calls \ {c}) \cup {[c EXCEPT !.pc = "swap", !.seen = v]}
       /\ maxSeen' = [maxSeen EXCEPT ![c.l] = IF v > @ THEN v ELSE @]
  /\ UNCHANGED <<file, queue, loaded, watching, nextId, errs>>

Swap(c) ==
  /\ c.pc = "swap"
  /\ loaded' = [loaded EXCEPT ![c.l] = c.seen]
  /\ calls' = calls \ {c}
  /\ UNCHANGED <<file, queue, maxSeen, watching, nextId, errs>>

Next ==
  \/ \E f \in Files : Write(f)
  \/ FsError
  \/ Dispatch
  \/ \E c \in calls : Read(c) \/ Swap(c)

Fairness == WF_vars(Dispatch) /\ WF_vars(\E c \in calls : Read(c) \/ Swap(c))

Spec == Init /\ [][Next]_vars /\ Fairness

-----------------------------------------------------------------------------
(* at rest: nothing is running and nothing will be taken from the queue any more *)
Quiescent == calls = {} /\ (queue = <<>> \/ ~watching)

TypeOK ==
  /\ \A f \in Files : file[f] \in 0..MaxWrites
  /\ \A c \in calls : c.l \in Listeners /\ c.pc \in {"read", "swap"} /\ c.seen \in 0..MaxWrites
  /\ \A l \in Listeners : loaded[l] \in 0..MaxWrites

LoadedWasWritten == \A l \in Listeners : loaded[l] <= file[Reg[l]] /\ maxSeen[l] <= file[Reg[l]]

NotifiedOfLast == Quiescent => \A l \in Listeners : maxSeen[l] = file[Reg[l]]

(* NOT guaranteed by the per-event design: *)
Converged == Quiescent => \A l \in Listeners : loaded[l] = file[Reg[l]]

AllWritten == \A f \in Files : file[f] = MaxWrites
Quiesces == <>[](AllWritten /\ errs = MaxErrors => Quiescent) 
(* weaker and unconditional: the queue is always drained again *)
Drains == []<>(queue = <<>>)
=============================================================================
