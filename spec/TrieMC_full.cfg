SPECIFICATION Spec
CONSTANTS MaxSet = 2
  Mutant = "none"
INVARIANTS Refines EmptyWhenEmpty
CHECK_DEADLOCK FALSE
