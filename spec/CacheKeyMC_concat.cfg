SPECIFICATION Spec
CONSTANTS KeyFn = "concat"
  MaxEvals = 3
INVARIANTS InvNoCrossReuse
CHECK_DEADLOCK FALSE
