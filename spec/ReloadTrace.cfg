SPECIFICATION TSpec
CONSTANTS
  Entries = {}
  Classes = {}
  Mutant = "none"
CONSTRAINT Export
POSTCONDITION Done
CHECK_DEADLOCK FALSE
