---------------------------- MODULE AuthnRealTrace ----------------------------
(***************************************************************************)
(* Trace validation for the real-authenticator half of C04.  Every line is *)
(* one request sent to the real assembled decision service whose rule      *)
(* chains REAL authenticators (anonymous, unauthorized, basic_auth, jwt,   *)
(* generic, oauth2_introspection; JWKS, introspection and identity         *)
(* endpoints are local servers with call counters).  The line has the      *)
(* format PipelineTrace consumes: c.authn[i] carries the outcome the       *)
(* specification assigns to the credential class the driver constructed    *)
(* for step i                                                              *)
(*   valid    -> ok            none   -> argument error (no credentials)   *)
(*   rejected -> authentication error    infra -> communication error      *)
(* and fb = the allow_fallback_on_error setting in force.  Pipeline!Run    *)
(* folds the authentication stage (StepAuthn: continue iff the error is an *)
(* argument error or the step allows fallback; subject of the first        *)
(* success).  The real code must agree on                                  *)
(*   - success / failure of the request,                                   *)
(*   - whose subject is produced (every step yields a subject id that      *)
(*     names the step),                                                    *)
(*   - and must not call the remote endpoint of a step that the            *)
(*     specification does not consult.                                     *)
(* Which failure status is returned is C12's business and only recorded.   *)
(***************************************************************************)
EXTENDS Pipeline, Json, IOUtils, TLC, SequencesExt

Trace == ndJsonDeserialize(IOEnv.VERIF_TRACE)
OutFile == IOEnv.VERIF_OUT

VARIABLES l, bad, div, nontrivial

vars == <<l, bad, div, nontrivial>>

Consulted(c, exp) == {exp.exec[i] : i \in 1..Len(exp.exec)} \cap {c.authn[i].n : i \in 1..Len(c.authn)}

Violations(c, exp) ==
  LET o == c.obs IN
  (IF o.positive /\ ~exp.positive THEN {"authenticated-but-spec-fails"} ELSE {})
  \cup (IF ~o.positive /\ exp.positive THEN {"failed-but-spec-authenticates"} ELSE {})
  \cup (IF o.positive /\ exp.positive /\ o.subject # exp.subject THEN {"subject-not-of-first-success"} ELSE {})
  \cup (IF \E i \in 1..Len(c.authn) : c.authn[i].n \notin Consulted(c, exp) /\ o.calls[i] > 0
        THEN {"endpoint-of-unconsulted-authenticator-called"} ELSE {})

(* binding sanity (not a verdict): a consulted step with a live remote      *)
(* endpoint and credentials must have called it; a step without            *)
(* credentials must not                                                     *)
Diverges(c, exp) ==
  LET o == c.obs IN
  \E i \in 1..Len(c.authn) :
     LET s == c.authn[i] IN
     \/ s.n \in Consulted(c, exp) /\ s.remote /\ s.class \in {"valid", "rejected"} /\ o.calls[i] = 0
     \/ s.class \in {"none", "infra"} /\ o.calls[i] > 0

NonTrivial(c, exp) == Len(c.authn) > 1 /\ (~exp.positive \/ exp.subject # c.authn[1].n)

Init == l = 1 /\ bad = {} /\ div = {} /\ nontrivial = 0

Next ==
  /\ l <= Len(Trace)
  /\ LET c == Trace[l]
         exp == Expected(c, c.overrides)
         v == Violations(c, exp)
         e == [positive |-> exp.positive, subject |-> exp.subject, consulted |-> SetToSeq(Consulted(c, exp))]
     IN /\ bad' = IF v = {} THEN bad ELSE bad \cup {[line |-> l, id |-> c.id, reasons |-> SetToSeq(v), expected |-> e]}
        /\ div' = IF Diverges(c, exp) THEN div \cup {[line |-> l, id |-> c.id, expected |-> e]} ELSE div
        /\ nontrivial' = IF NonTrivial(c, exp) THEN nontrivial + 1 ELSE nontrivial
  /\ l' = l + 1

Spec == Init /\ [][Next]_vars

Done ==
  /\ TLCGet("stats").diameter - 1 = Len(Trace)
  /\ JsonSerialize(OutFile, [lines |-> Len(Trace), nontrivial |-> TLCGet(3),
                             bad |-> SetToSeq(TLCGet(1)), div |-> SetToSeq(TLCGet(2))])

Export == IF l = Len(Trace) + 1
          THEN TLCSet(1, bad) /\ TLCSet(2, div) /\ TLCSet(3, nontrivial)
          ELSE TRUE
=============================================================================
