SPECIFICATION Spec
CONSTANTS Backend = "noexpiry"
  Mutant = "fallback_cfg"
  Keys = {"k1"}
INVARIANTS InvTokenNotExpired
CHECK_DEADLOCK FALSE
