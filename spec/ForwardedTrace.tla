---------------------------- MODULE ForwardedTrace ----------------------------
(***************************************************************************)
(* Trace validation for C09.  Every line is one fully logged case executed *)
(* on the real assembled service (decision or proxy mode, or in-package    *)
(* with a chosen RemoteAddr): abstract input (peer, trusted_proxies list,  *)
(* header lines, flags) and abstract observation.  The single action       *)
(* consumes one line and evaluates Forwarded!Failed; it never blocks, so   *)
(* all failing cases are known after one pass.                             *)
(***************************************************************************)
EXTENDS Forwarded, Json, IOUtils, TLC, SequencesExt

Trace == ndJsonDeserialize(IOEnv.VERIF_TRACE)
OutFile == IOEnv.VERIF_OUT

VARIABLES l, bad, nontrivial

vars == <<l, bad, nontrivial>>

(* non-trivial: the peer sent at least one of the seven headers and the    *)
(* statement decides the case                                              *)
NonTrivial(c) == (\E n \in Names : c.h[n] > 0) /\ Trust(c.peer, c.list) # "open"

Expected(c) ==
  [trust |-> Trust(c.peer, c.list),
   stripped |-> Strip(Trust(c.peer, c.list) = "yes", c.h)]

Init == l = 1 /\ bad = {} /\ nontrivial = 0

(* bad holds line numbers only (small states); the verdict records are     *)
(* built once, at the end                                                  *)
Next ==
  /\ l <= Len(Trace)
  /\ LET c == Trace[l]
     IN /\ bad' = IF Failed(c, c.obs) = {} THEN bad ELSE bad \cup {l}
        /\ nontrivial' = IF NonTrivial(c) THEN nontrivial + 1 ELSE nontrivial
  /\ l' = l + 1

Spec == Init /\ [][Next]_vars

Record(n) == LET c == Trace[n] IN
  [line |-> n, id |-> c.id, reasons |-> SetToSeq(Failed(c, c.obs)), expected |-> Expected(c)]

Done ==
  /\ TLCGet("stats").diameter - 1 = Len(Trace)
  /\ JsonSerialize(OutFile, [lines |-> Len(Trace), nontrivial |-> TLCGet(3),
                             bad |-> LET ls == SetToSeq(TLCGet(1)) IN [i \in 1..Len(ls) |-> Record(ls[i])]])

Export == IF l = Len(Trace) + 1 THEN TLCSet(1, bad) /\ TLCSet(3, nontrivial) ELSE TRUE
=============================================================================
