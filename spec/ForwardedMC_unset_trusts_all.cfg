SPECIFICATION Spec
CONSTANTS W = 2
  MaxList = 2
  Mutant = "unset_trusts_all"
INVARIANTS InvTrust InvProperty InvUntrusted InvTrusted InvUpstream
CHECK_DEADLOCK FALSE
