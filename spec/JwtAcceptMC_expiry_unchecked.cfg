SPECIFICATION Spec
CONSTANT Mutant = "expiry_unchecked"
INVARIANTS InvTypes InvSignature InvUnsigned InvAlgKey InvAlgAllowed InvIssuer InvAudience InvScopes InvValidity InvKidUnique InvMerge InvRefines InvVerdict
CHECK_DEADLOCK FALSE
