SPECIFICATION Spec
CONSTANTS Mutant = "expiry_unchecked"
  Full = FALSE
INVARIANTS InvTypes InvSignature InvUnsigned InvAlgKey InvAlgAllowed InvIssuer InvAudience InvScopes InvValidity InvKidUnique InvMerge InvRefines InvVerdict
CHECK_DEADLOCK FALSE
