SPECIFICATION Spec
CONSTANTS MaxTail = 2
  Mutant = "forwarded_method_kept"
INVARIANTS InvProperty InvStripThenAdd InvNoRecoding InvPipelineWins InvForwarded
CHECK_DEADLOCK FALSE
