---------------------------- MODULE JwtAcceptTrace ----------------------------
(***************************************************************************)
(* Trace validation for C05.  Every line is one case executed on the real  *)
(* jwt authenticator (created by the real mechanism factory, key set       *)
(* served by a local HTTP server): the abstract token, key set, mechanism  *)
(* assertions and rule-level override as constructed by the driver, the    *)
(* canonical JSON of the claims it signed, and the observation             *)
(*   obs.accepted  a subject was returned without error                    *)
(*   obs.sub       the subject id ("" if none)                             *)
(*   obs.attrs     canonical JSON of the subject attributes ("" if none)   *)
(*   obs.kind      error kind on rejection (informational)                 *)
(* mut # "none" marks a mutant of a valid token (bytes flipped, parts      *)
(* swapped, alg / kid rewritten without or with another key ...): its      *)
(* signature does not verify by construction, so it must be rejected.      *)
(* The single action consumes one line and evaluates JwtAccept!Verdict.    *)
(***************************************************************************)
EXTENDS JwtAccept, Json, IOUtils, TLC, SequencesExt

Trace == ndJsonDeserialize(IOEnv.VERIF_TRACE)
OutFile == IOEnv.VERIF_OUT

VARIABLES l, bad, counts

vars == <<l, bad, counts>>

Expected(c) == IF c.mut # "none" THEN "reject" ELSE Verdict(c.t, c.j, c.rule, c.mech)

Violations(c, v) ==
  LET o == c.obs IN
  (IF v = "reject" /\ o.accepted THEN {"accepted-but-must-be-rejected"} ELSE {})
  \cup (IF v = "accept" /\ ~o.accepted THEN {"rejected-but-must-be-accepted"} ELSE {})
  \cup (IF o.accepted /\ o.sub # SubjectOf(c.t) THEN {"subject-id-not-from-verified-claims"} ELSE {})
  \cup (IF o.accepted /\ o.attrs # c.claims THEN {"attributes-not-from-verified-claims"} ELSE {})
  \cup (IF ~o.accepted /\ o.sub # "" THEN {"subject-yielded-on-rejection"} ELSE {})

Init == l = 1 /\ bad = {} /\ counts = [accept |-> 0, reject |-> 0, open |-> 0, openAccepted |-> 0]

Next ==
  /\ l <= Len(Trace)
  /\ LET c == Trace[l]
         v == Expected(c)
         viol == Violations(c, v)
     IN /\ bad' = IF viol = {} THEN bad
                  ELSE bad \cup {[line |-> l, id |-> c.id, reasons |-> SetToSeq(viol), expected |-> v]}
        /\ counts' = [counts EXCEPT ![v] = @ + 1,
                                    !.openAccepted = IF v = "open" /\ c.obs.accepted THEN @ + 1 ELSE @]
  /\ l' = l + 1

Spec == Init /\ [][Next]_vars

Done ==
  /\ TLCGet("stats").diameter - 1 = Len(Trace)
  /\ JsonSerialize(OutFile, [lines |-> Len(Trace), counts |-> TLCGet(2), bad |-> SetToSeq(TLCGet(1))])

Export == IF l = Len(Trace) + 1 THEN TLCSet(1, bad) /\ TLCSet(2, counts) ELSE TRUE
=============================================================================
