SPECIFICATION TraceSpec
CONSTANTS
  PKind = "trace"
  Mutant = "none"
CONSTRAINT Export
POSTCONDITION Done
CHECK_DEADLOCK FALSE
