SPECIFICATION Spec
CONSTANT Mutant = "none"
INVARIANTS InvTypes InvSignature InvUnsigned InvAlgKey InvAlgAllowed InvIssuer InvAudience InvScopes InvValidity InvKidUnique InvMerge InvRefines InvVerdict
PROPERTY Terminates
CHECK_DEADLOCK FALSE
