SPECIFICATION Spec
CONSTANTS Mutant = "none"
  Full = FALSE
INVARIANTS InvTypes InvSignature InvUnsigned InvAlgKey InvAlgAllowed InvIssuer InvAudience InvScopes InvValidity InvKidUnique InvMerge InvRefines InvVerdict
PROPERTY Terminates
CHECK_DEADLOCK FALSE
