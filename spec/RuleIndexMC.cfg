SPECIFICATION Spec
CONSTANT Mutant = "none"
INVARIANTS OwnershipUnique IndexOrder LookupWellDefined NoEmptyWildcard
CHECK_DEADLOCK FALSE
