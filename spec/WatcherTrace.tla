---------------------------- MODULE WatcherTrace ----------------------------
(***************************************************************************)
(* Judges executions of the real secrets watcher (internal/watcher, its    *)
(* fsnotify watcher and watch loop, recording listeners) recorded by       *)
(* harness/overlay/c19_watcher_test.go.  The events drive the variables of *)
(* Watcher.tla (file = completed writes, calls, maxSeen, loaded); what the *)
(* watcher does between a write and a call (queue, Dispatch) is not        *)
(* observable and stays out.  Events of one round, in the order of one     *)
(* mutex:                                                                  *)
(*   start                     a new round (fresh watcher, files at 0)     *)
(*   wstart{f,v} / wdone{f,v}  before / after version v is written         *)
(*   err                       an error handed to the watch loop           *)
(*   call{l,id}                OnChanged of listener l begins              *)
(*   rstart{id} / read{id,v}   before / after the call reads the file      *)
(*   done{id}                  the call returns                            *)
(*   quiet                     all writes done and waited for the calls    *)
(* Judged: a call reads nothing unwritten and nothing older than what was  *)
(* complete when it began to read (LoadedWasWritten); no call before any   *)
(* write of its file; at `quiet` NotifiedOfLast holds and no call hangs.   *)
(***************************************************************************)
EXTENDS WatcherMC, Json, IOUtils, SequencesExt

Trace == ndJsonDeserialize(IOEnv.VERIF_TRACE)
OutFile == IOEnv.VERIF_OUT

VARIABLES l, nbad, ws, atRead, tr, stats

tvars == <<l, nbad, ws, atRead, tr, stats, file, queue, calls, loaded, maxSeen, watching, nextId, errs>>

MaxN(a, b) == IF a > b THEN a ELSE b

TInit == /\ Init /\ l = 1 /\ nbad = 0 /\ ws = [f \in MCFiles |-> 0] /\ atRead = <<>> /\ tr = 0
         /\ stats = [rounds |-> 0, writes |-> 0, ncalls |-> 0, reads |-> 0, errors |-> 0, quiets |-> 0, stale_final |-> 0]
         /\ TLCSet(1, {})

CallOf(id) == CHOOSE c \in calls : c.id = id
HasCall(id) == \E c \in calls : c.id = id

Reasons(e) ==
  CASE e.ev = "call" ->
         (IF ws[MCReg[e.l]] = 0 THEN {"call-without-write"} ELSE {})
         \cup (IF e.l \notin MCListeners THEN {"unknown-listener"} ELSE {})
    [] e.ev = "read" ->
         IF ~HasCall(e.id) THEN {"read-without-call"}
         ELSE LET c == CallOf(e.id) IN
              (IF e.v > ws[MCReg[c.l]] THEN {"read-unwritten-version"} ELSE {})
              \cup (IF e.id \in DOMAIN atRead /\ e.v < atRead[e.id] THEN {"read-older-than-completed-write"} ELSE {})
    [] e.ev = "quiet" ->
         (IF calls # {} THEN {"listener-call-unfinished"} ELSE {})
         \cup (IF calls = {} /\ ~NotifiedOfLast THEN {"lost-last-write"} ELSE {})
         \cup (IF ~LoadedWasWritten THEN {"loaded-unwritten-version"} ELSE {})
    [] e.ev \in {"start", "wstart", "wdone", "err", "rstart", "done"} -> {}
    [] OTHER -> {"unknown-event"}

TNext ==
  /\ l <= Len(Trace)
  /\ l' = l + 1
  /\ LET e == Trace[l]
         rs == Reasons(e)
     IN /\ nbad' = IF rs = {} THEN nbad ELSE nbad + 1
        /\ (rs # {}) => TLCSet(1, TLCGet(1) \cup {[line |-> l, tr |-> e.tr, ev |-> e.ev, reasons |-> SetToSeq(rs)]})
        /\ tr' = e.tr
        /\ UNCHANGED <<queue, watching, nextId>>
        /\ CASE e.ev = "start" ->
                  /\ file' = [f \in MCFiles |-> 0] /\ ws' = [f \in MCFiles |-> 0] /\ calls' = {} /\ atRead' = <<>>
                  /\ loaded' = [x \in MCListeners |-> 0] /\ maxSeen' = [x \in MCListeners |-> 0] /\ errs' = 0
                  /\ stats' = [stats EXCEPT !.rounds = @ + 1]
             [] e.ev = "wstart" ->
                  /\ ws' = [ws EXCEPT ![e.f] = MaxN(@, e.v)]
                  /\ stats' = [stats EXCEPT !.writes = @ + 1]
                  /\ UNCHANGED <<file, calls, atRead, loaded, maxSeen, errs>>
             [] e.ev = "wdone" ->
                  /\ file' = [file EXCEPT ![e.f] = MaxN(@, e.v)]
                  /\ UNCHANGED <<ws, calls, atRead, loaded, maxSeen, errs, stats>>
             [] e.ev = "err" ->
                  /\ errs' = errs + 1 /\ stats' = [stats EXCEPT !.errors = @ + 1]
                  /\ UNCHANGED <<file, ws, calls, atRead, loaded, maxSeen>>
             [] e.ev = "call" /\ e.l \in MCListeners ->
                  /\ calls' = calls \cup {[id |-> e.id, l |-> e.l, pc |-> "read", seen |-> 0]}
                  /\ stats' = [stats EXCEPT !.ncalls = @ + 1]
                  /\ UNCHANGED <<file, ws, atRead, loaded, maxSeen, errs>>
             [] e.ev = "rstart" /\ HasCall(e.id) ->
                  /\ atRead' = (e.id :> file[MCReg[CallOf(e.id).l]]) @@ atRead
                  /\ UNCHANGED <<file, ws, calls, loaded, maxSeen, errs, stats>>
             [] e.ev = "read" /\ HasCall(e.id) ->
                  LET c == CallOf(e.id) IN
                  /\ calls' = (calls \ {c}) \cup {[c EXCEPT !.pc = "swap", !.seen = e.v]}
                  /\ maxSeen' = [maxSeen EXCEPT ![c.l] = MaxN(@, e.v)]
                  /\ stats' = [stats EXCEPT !.reads = @ + 1]
                  /\ UNCHANGED <<file, ws, atRead, loaded, errs>>
             [] e.ev = "done" /\ HasCall(e.id) ->
                  LET c == CallOf(e.id) IN
                  /\ calls' = calls \ {c}
                  /\ loaded' = [loaded EXCEPT ![c.l] = c.seen]
                  /\ UNCHANGED <<file, ws, atRead, maxSeen, errs, stats>>
             [] e.ev = "quiet" ->
                  (* Converged is not demanded (per-event goroutines may overtake each other): counted only *)
                  /\ stats' = [stats EXCEPT !.quiets = @ + 1,
                                            !.stale_final = @ + (IF calls = {} /\ ~Converged THEN 1 ELSE 0)]
                  /\ UNCHANGED <<file, ws, calls, atRead, loaded, maxSeen, errs>>
             [] OTHER -> UNCHANGED <<file, ws, calls, atRead, loaded, maxSeen, errs, stats>>

TSpec == TInit /\ [][TNext]_tvars

Export == IF l = Len(Trace) + 1 THEN TLCSet(2, stats) ELSE TRUE

Done ==
  /\ TLCGet("stats").diameter - 1 = Len(Trace)
  /\ JsonSerialize(OutFile, [lines |-> Len(Trace), stats |-> TLCGet(2), bad |-> SetToSeq(TLCGet(1))])
=============================================================================
