SPECIFICATION Spec
CONSTANTS MaxTail = 3
  Mutant = "none"
INVARIANTS InvProperty InvStripThenAdd InvNoRecoding InvPipelineWins InvForwarded
CHECK_DEADLOCK FALSE
