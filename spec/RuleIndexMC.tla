---------------------------- MODULE RuleIndexMC ----------------------------
(***************************************************************************)
(* Design run for PathMatch / RuleIndex: every history of add / update /   *)
(* delete over two sources and a small universe of rules (two rules        *)
(* sharing one expression, a free-wildcard rule, a rule with a leading     *)
(* wildcard; two versions each).  Besides the abstract state (sets) the    *)
(* module carries an implementation-shaped index: per path expression the  *)
(* ordered list of its owners, maintained incrementally the way a          *)
(* repository patches its lookup structure.  Invariants: an expression is  *)
(* owned by one source; the incremental index lists the owners in the      *)
(* order of the current version of their rule set (IndexOrder - what       *)
(* "matching equals a fresh load" needs from an incremental                *)
(* implementation); the specificity order is total on the expressions      *)
(* matching any probe path and the lookup has exactly one outcome;         *)
(* wildcards never match empty segments.  Mutants are refuted as negative  *)
(* controls: "append_changed" is the update strategy heimdall used before  *)
(* the fix "updating a rule set keeps the order of its rules".             *)
(***************************************************************************)
EXTENDS RuleIndex, TLC

CONSTANT Mutant

Lit(v) == [t |-> "lit", v |-> v, n |-> ""]
One(n) == [t |-> "one", v |-> "", n |-> n]
Free(n) == [t |-> "free", v |-> "", n |-> n]

M(m) == [m |-> m, neg |-> FALSE]

MkRule(id, ver, expr, methods, bt) ==
  [id |-> id, ver |-> ver, src |-> "", bt |-> bt, scheme |-> "", methods |-> methods, hosts |-> <<>>,
   routes |-> <<[expr |-> expr, params |-> <<>>]>>]

(* version 1 of a rule changes its definition (here: the methods) *)
Universe ==
  {MkRule("a", 0, <<Lit("foo"), One("x")>>, <<M("GET")>>, FALSE),
   MkRule("a", 1, <<Lit("foo"), One("x")>>, <<M("GET"), M("POST")>>, FALSE),
   MkRule("b", 0, <<Lit("foo"), One("x")>>, <<M("POST")>>, FALSE),
   MkRule("b", 1, <<Lit("foo"), One("x")>>, <<>>, TRUE),
   MkRule("c", 0, <<Lit("foo"), Free("")>>, <<>>, TRUE),
   MkRule("d", 0, <<One("y"), Lit("bar")>>, <<M("GET")>>, TRUE)}

Sources == {"s1", "s2"}

RuleSets == {<<r>> : r \in Universe}
            \cup {<<pr[1], pr[2]>> : pr \in {q \in Universe \X Universe : q[1].id # q[2].id}}

VARIABLES srcs, sets, index

vars == <<srcs, sets, index>>

Init == srcs = <<>> /\ sets = [x \in {} |-> <<>>] /\ index = [x \in {} |-> <<>>]

Tag(src, rs) == [i \in 1..Len(rs) |-> [rs[i] EXCEPT !.src = src]]

Entry(r) == <<r.src, r.id, r.ver>>
ShapeOfRule(r) == Shape(r.routes[1].expr)

(* incremental maintenance of the index *)
RECURSIVE AppendAll(_, _, _)
AppendAll(ix, rs, i) ==
  IF i > Len(rs) THEN ix
  ELSE LET sh == ShapeOfRule(rs[i])
           cur == IF sh \in DOMAIN ix THEN ix[sh] ELSE <<>>
       IN AppendAll([x \in DOMAIN ix \cup {sh} |-> IF x = sh THEN Append(cur, Entry(rs[i])) ELSE ix[x]], rs, i + 1)

RemoveWhere(ix, P(_)) ==
  LET stripped == [x \in DOMAIN ix |-> SelectSeq(ix[x], LAMBDA e : ~P(e))]
  IN [x \in {y \in DOMAIN stripped : stripped[y] # <<>>} |-> stripped[x]]

IndexAdd(ix, rs) == AppendAll(ix, rs, 1)
IndexDelete(ix, src) == RemoveWhere(ix, LAMBDA e : e[1] = src)

IndexUpdate(ix, src, old, new) ==
  IF Mutant = "append_changed"
  THEN LET keep == {Entry(new[i]) : i \in 1..Len(new)} \cap {Entry(old[i]) : i \in 1..Len(old)}
           gone == RemoveWhere(ix, LAMBDA e : e[1] = src /\ e \notin keep)
       IN AppendAll(gone, SelectSeq(new, LAMBDA r : Entry(r) \notin keep), 1)
  ELSE IF old = new THEN ix
  ELSE IndexAdd(IndexDelete(ix, src), new)

Rejects(rest, src, rs) == Mutant # "no_constraint" /\ MustReject(rest, sets, src, rs)

Add(src, rs0) ==
  LET rs == Tag(src, rs0) IN
  /\ src \notin ToSet(srcs)
  /\ IF Rejects(srcs, src, rs) THEN UNCHANGED vars
     ELSE /\ srcs' = Append(srcs, src)
          /\ sets' = [x \in DOMAIN sets \cup {src} |-> IF x = src THEN rs ELSE sets[x]]
          /\ index' = IndexAdd(index, rs)

Update(src, rs0) ==
  LET rs == Tag(src, rs0) IN
  /\ src \in ToSet(srcs)
  /\ IF Rejects(Without(srcs, src), src, rs) THEN UNCHANGED vars
     ELSE /\ UNCHANGED srcs
          /\ sets' = [sets EXCEPT ![src] = rs]
          /\ index' = IndexUpdate(index, src, sets[src], rs)

Delete(src) ==
  /\ src \in ToSet(srcs)
  /\ srcs' = Without(srcs, src)
  /\ sets' = [x \in DOMAIN sets \ {src} |-> sets[x]]
  /\ index' = IndexDelete(index, src)

Next == \E src \in Sources : Delete(src) \/ \E rs \in RuleSets : Add(src, rs) \/ Update(src, rs)

Spec == Init /\ [][Next]_vars

Flat == Flatten(srcs, sets)

OwnershipUnique ==
  \A a \in 1..Len(srcs), b \in 1..Len(srcs) :
     a # b => ShapesOf(sets[srcs[a]]) \cap ShapesOf(sets[srcs[b]]) = {}

(* per expression the incremental index equals the fresh order *)
IndexOrder ==
  LET fresh == IndexAdd([x \in {} |-> <<>>], Flat) IN
  /\ DOMAIN index = DOMAIN fresh
  /\ \A sh \in DOMAIN index : index[sh] = fresh[sh]

Segs == {"foo", "bar", ""}
Paths == {<<a>> : a \in Segs} \cup {<<a, b>> : a \in Segs, b \in Segs}
         \cup {<<a, b, c>> : a \in Segs, b \in Segs, c \in Segs}
Probes == {[method |-> m, scheme |-> "http", host |-> "h", path |-> p] : m \in {"GET", "POST"}, p \in Paths}

LookupWellDefined ==
  \A q \in Probes :
     /\ TotalOrderOn(MatchingShapes(Flat, q.path))
     /\ Cardinality(Lookup(Flat, q)) >= 1
     /\ (\A sh \in MatchingShapes(Flat, q.path) :
            Cardinality({Flat[Owners(Flat, sh)[k][1]].bt : k \in 1..Len(Owners(Flat, sh))}) = 1)
          => Cardinality(Lookup(Flat, q)) = 1

NoEmptyWildcard ==
  \A q \in Probes : \A pr \in RouteIdx(Flat) :
     /\ WildcardsNeverMatchEmpty(ExprAt(Flat, pr), q.path)
     /\ FreeTakesNonEmptyRemainder(ExprAt(Flat, pr), q.path)
=============================================================================
