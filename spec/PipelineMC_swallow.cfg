SPECIFICATION Spec
CONSTANT Mutant = "swallow"
INVARIANTS InvSafety InvUpstream InvNoSwallow InvTypes InvNegativeStatus
CHECK_DEADLOCK FALSE
