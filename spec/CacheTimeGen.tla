----------------------------- MODULE CacheTimeGen -----------------------------
(***************************************************************************)
(* Abstract cases of C10, enumerated by TLC and written as NDJSON.         *)
(*   credential-like mechanisms: expiry offset class x configured TTL      *)
(*   class x rule-level cache_ttl override class x mechanism               *)
(*   HTTP cache: Cache-Control x Expires x Date x default TTL              *)
(*   wait: the few sequences that need real elapsed time                   *)
(* The numbers the classes stand for (seconds) are fixed here, so that the *)
(* driver and the trace specification use the same ones.  Every threshold  *)
(* of the code and of the statement is at least 3 s away from every class. *)
(***************************************************************************)
EXTENDS CacheTime, Json, IOUtils, TLC, Sequences, SequencesExt, FiniteSets

Env(n, d) == IF n \in DOMAIN IOEnv THEN IOEnv[n] ELSE d
OutFile == Env("VERIF_GEN_OUT", "/tmp/c10cases.ndjson")

(* expiry offset classes (seconds relative to the request); NoOff = absent *)
NoOff == -1000000
OffOf(cls) ==
  CASE cls = "absent" -> NoOff
    [] cls = "far" -> 3600
    [] cls = "mid" -> 40
    [] cls = "inleeway" -> 5        \* still valid, remaining - margin < 0
    [] cls = "justpassed" -> -5     \* expired, but inside the validity leeway (auth only)
    [] cls = "longpassed" -> -3600  \* expired beyond the leeway: rejected
    [] cls = "near" -> 2            \* token / expires_in below the margin of 5 s

(* configured TTL classes (seconds); Unset = -1 *)
TTLOf(cls) ==
  CASE cls = "unset" -> Unset
    [] cls = "zero" -> 0
    [] cls = "neg" -> -30           \* a negative duration: no more than zero
    [] cls = "short" -> 12
    [] cls = "long" -> 7200

TTLClasses == {"unset", "zero", "neg", "short", "long"}
AuthExp == {"absent", "far", "mid", "inleeway", "justpassed", "longpassed"}

(* mechanism table: kind, expiry classes, catalogue TTL classes, rule-level override classes, *)
(* lam = validity leeway (s) the statement grants, margin = what the code subtracts            *)
Mechs == {
  [m |-> "oauth2_introspection", kind |-> "auth", exps |-> AuthExp, cfgs |-> TTLClasses,
   ovrs |-> TTLClasses, lam |-> 10],
  [m |-> "generic_session", kind |-> "auth", exps |-> AuthExp, cfgs |-> TTLClasses,
   ovrs |-> TTLClasses, lam |-> 10],
  [m |-> "generic_nosession", kind |-> "auth", exps |-> {"absent"}, cfgs |-> TTLClasses,
   ovrs |-> TTLClasses, lam |-> 10],
  [m |-> "jwt_cert", kind |-> "key", exps |-> {"far", "mid", "inleeway", "longpassed"}, cfgs |-> TTLClasses,
   ovrs |-> TTLClasses, lam |-> 0],
  (* x5c = leaf + CA certificate (which lives much longer): the key is as valid as its leaf *)
  [m |-> "jwt_chain", kind |-> "key", exps |-> {"far", "mid", "inleeway", "longpassed"}, cfgs |-> TTLClasses,
   ovrs |-> {"unset", "long"}, lam |-> 0],
  [m |-> "jwt_nocert", kind |-> "key", exps |-> {"absent"}, cfgs |-> TTLClasses,
   ovrs |-> TTLClasses, lam |-> 0],
  [m |-> "jwt_finalizer", kind |-> "token", exps |-> {"near", "mid", "far"}, cfgs |-> {"unset"},
   ovrs |-> {"unset", "near", "mid"}, lam |-> 0],
  (* justpassed: the token endpoint says expires_in = -5 (a token that is over already) *)
  [m |-> "cc_finalizer", kind |-> "token", exps |-> {"absent", "near", "mid", "far", "justpassed"}, cfgs |-> TTLClasses,
   ovrs |-> TTLClasses, lam |-> 0],
  [m |-> "cc_strategy", kind |-> "token", exps |-> {"absent", "near", "mid", "far", "justpassed"}, cfgs |-> TTLClasses,
   ovrs |-> {"unset"}, lam |-> 0],
  [m |-> "remote_authorizer", kind |-> "plain", exps |-> {"absent"}, cfgs |-> TTLClasses,
   ovrs |-> TTLClasses, lam |-> 0],
  [m |-> "generic_contextualizer", kind |-> "plain", exps |-> {"absent"}, cfgs |-> TTLClasses,
   ovrs |-> TTLClasses, lam |-> 0]
}

(* the jwt finalizer has no cache TTL; its rule-level override replaces the token lifetime *)
EffExp(mc, exp, ovr) == IF mc.m = "jwt_finalizer" /\ ovr # "unset" THEN ovr ELSE exp
(* effective configured TTL: the rule-level value if given, else the catalogue's *)
EffTTL(mc, cfg, ovr) == IF mc.m = "jwt_finalizer" THEN Unset
                        ELSE IF ovr # "unset" THEN TTLOf(ovr) ELSE TTLOf(cfg)

HttpNone == [cc |-> "none", expires |-> "none", date |-> "none", dttl |-> "none"]

MechCase(mc, exp, cfg, ovr, seq) ==
  [fam |-> "mech", mech |-> mc.m, kind |-> mc.kind, exp |-> exp, cfg |-> cfg, ovr |-> ovr, seq |-> seq,
   off |-> OffOf(EffExp(mc, exp, ovr)), c |-> EffTTL(mc, cfg, ovr), lam |-> mc.lam,
   (* trigger field for known findings: the object is still accepted but nothing remains after the margin *)
   near |-> EffExp(mc, exp, ovr) \in {"inleeway", "justpassed", "near"},
   http |-> HttpNone]

MechCases ==
  UNION {{MechCase(mc, exp, cfg, ovr, "repeat") : exp \in mc.exps, cfg \in mc.cfgs, ovr \in mc.ovrs} : mc \in Mechs}

---------------------------------------------------------------------------
(* HTTP cache (internal/httpcache.RoundTripper).  RFC 7234 section 4.2.1:  *)
(* freshness lifetime = max-age, else Expires - Date, else none (then the  *)
(* configured default TTL may be used as heuristic lifetime).              *)
DefaultTTLOf(cls) == IF cls = "zero" THEN 0 ELSE 45

HttpCases ==
  {[fam |-> "http", mech |-> "httpcache", kind |-> "http", exp |-> "absent", cfg |-> h.dttl, ovr |-> "unset",
    seq |-> "repeat", off |-> NoOff, c |-> DefaultTTLOf(h.dttl), lam |-> 0,
    near |-> HasFresh(h) /\ Fresh(h) <= 0, http |-> h] :
     h \in [cc : {"maxage", "maxage0", "nostore_maxage", "private_maxage", "nocache_maxage", "absent"},
            expires : {"future", "past", "absent"}, date : {"now", "skewed", "absent"}, dttl : {"zero", "set"}]}

---------------------------------------------------------------------------
(* sequences that need real time: a third request 8 s after the first *)
W(mech, kind, exp, cfg, lam, h) ==
  [fam |-> "wait", mech |-> mech, kind |-> kind, exp |-> exp, cfg |-> cfg, ovr |-> "unset", seq |-> "wait",
   off |-> IF exp = "soon" THEN 2 ELSE IF exp = "soon3" THEN 3 ELSE IF exp = "mid7" THEN 7 ELSE NoOff,
   c |-> IF cfg = "w60" THEN 60 ELSE IF cfg = "w1" THEN 1 ELSE Unset, lam |-> lam,
   near |-> exp \in {"soon", "soon3"} \/ (kind = "http" /\ HasFresh(h) /\ Fresh(h) <= 0), http |-> h]

WaitCases == {
  W("memory", "plain", "absent", "w1", 0, HttpNone),                 \* Set(ttl 1 s), Get after the wait
  W("oauth2_introspection", "auth", "soon", "w60", 1, HttpNone),     \* exp +2 s, validity_leeway 1 s, cache_ttl 60 s
  W("generic_session", "auth", "soon", "w60", 1, HttpNone),
  W("jwt_cert", "key", "soon3", "unset", 0, HttpNone),               \* certificate NotAfter +3 s
  W("jwt_chain", "key", "soon3", "unset", 0, HttpNone),
  W("jwt_finalizer", "token", "mid7", "unset", 0, HttpNone),         \* token lifetime 7 s
  W("cc_finalizer", "token", "soon", "w60", 0, HttpNone),            \* expires_in 2 s, cache_ttl 60 s
  W("httpcache", "http", "absent", "zero", 0, [cc |-> "maxage0", expires |-> "absent", date |-> "now", dttl |-> "zero"]),
  W("httpcache", "http", "absent", "zero", 0, [cc |-> "maxage1", expires |-> "absent", date |-> "now", dttl |-> "zero"]),
  (* a hit inside the lifetime (+4 s of 6 s) must not prolong it: the third request (+10 s) finds nothing *)
  [W("httpcache", "http", "absent", "zero", 0, [cc |-> "maxage6", expires |-> "absent", date |-> "now", dttl |-> "zero"])
     EXCEPT !.seq = "waithit"],
  [W("httpcache", "http", "absent", "set", 0, [cc |-> "maxage6", expires |-> "absent", date |-> "now", dttl |-> "set"])
     EXCEPT !.seq = "waithit"],
  [W("jwt_finalizer", "token", "mid7", "unset", 0, HttpNone) EXCEPT !.seq = "waithit"],
  (* the same with a response that is 54 s old already when it arrives (Age) *)
  [W("httpcache", "http", "absent", "zero", 0, [cc |-> "maxage_aged", expires |-> "absent", date |-> "now", dttl |-> "zero"])
     EXCEPT !.seq = "waithit"],
  (* an origin whose clock is 100 s ahead (Date in the future, no Age): the response is not younger than new *)
  [W("httpcache", "http", "absent", "zero", 0, [cc |-> "maxage6", expires |-> "absent", date |-> "ahead", dttl |-> "zero"])
     EXCEPT !.seq = "waithit"],
  [W("httpcache", "http", "absent", "set", 0, [cc |-> "maxage6", expires |-> "absent", date |-> "ahead", dttl |-> "set"])
     EXCEPT !.seq = "waithit"]
}

AllCases == MechCases \cup HttpCases \cup WaitCases

ASSUME LET cs == SetToSeq(AllCases) IN
  /\ ndJsonSerialize(OutFile, cs)
  /\ PrintT(<<"GENERATED", Len(cs)>>)
=============================================================================
