---------------------------- MODULE ProviderTrace ----------------------------
(***************************************************************************)
(* Trace validation for C18 (pattern A).  The trace is the concatenation   *)
(* of scenarios executed on the real providers, which were driven          *)
(* synchronously through their own event handlers with a recording         *)
(* rule.SetProcessor:                                                      *)
(*   reset{case, kind, prov, srcs}                new scenario             *)
(*   env{op, src, arg, content, link, refusing}   environment step (state  *)
(*                                                 of the sources after it) *)
(*   step{src, evt, ver, mode}                    a provider handler is    *)
(*                                                 about to be invoked      *)
(*   call{cb, id, src, ver, hash, ret}            call at the processor    *)
(*   done{active, panic}                          the handler returned     *)
(*   quiet{}                                      quiescence               *)
(* Every call must be allowed by the contract of Provider.tla in the state *)
(* reconstructed from the trace; every finished step and the quiescent     *)
(* state must satisfy it.  One action, never blocking; all rejected        *)
(* events are collected in bad with the trigger facts used for             *)
(* known-finding matching.                                                 *)
(***************************************************************************)
EXTENDS Provider, Json, IOUtils, SequencesExt

Trace == ndJsonDeserialize(IOEnv.VERIF_TRACE)
OutFile == IOEnv.VERIF_OUT

VARIABLES l, st, bad, div, stats

vars == <<l, st, bad, div, stats>>

EmptyFn == [x \in {} |-> ""]
NoCur == [src |-> "", evt |-> "", ver |-> "", mode |-> ""]

Fresh(e) ==
  LET S == {e.srcs[i] : i \in 1..Len(e.srcs)} IN
  [kind |-> e.kind, prov |-> e.prov, case |-> e.case,
   content |-> [s \in S |-> "absent"], link |-> [s \in S |-> "up"], refusing |-> FALSE,
   active |-> EmptyFn, idOf |-> [s \in S |-> ""], ever |-> {}, offered |-> [s \in S |-> "none"],
   called |-> {}, cur |-> NoCur, before |-> [s \in S |-> "none"],
   dirty |-> {}, prior |-> [s \in S |-> ""], lastevt |-> [s \in S |-> ""], reordered |-> FALSE,
   nontrivial |-> FALSE]

Idle == [kind |-> "", prov |-> "", case |-> "", content |-> EmptyFn, link |-> EmptyFn, refusing |-> FALSE,
         active |-> EmptyFn, idOf |-> EmptyFn, ever |-> {}, offered |-> EmptyFn, called |-> {},
         cur |-> NoCur, before |-> EmptyFn, dirty |-> {}, prior |-> EmptyFn, lastevt |-> EmptyFn,
         reordered |-> FALSE,
         nontrivial |-> FALSE]

Queued(s) == s.kind \in {"fs", "informer"}
Class(v) == IF IsValid(v) THEN "valid" ELSE v

Srcs(s) == DOMAIN s.content

(* sources a reason without a definite source is attributed to *)
Attributed(s, x) ==
  IF x.s \in Srcs(s) THEN {x.s}
  ELSE {t \in Srcs(s) : ViewOf(s, t) \in Gone \cup Faults /\ Entry(s.active, s.idOf, t) # "none"}

Facts(s, x, cb) ==
  LET t == x.s
      known == t \in Srcs(s)
      others == Srcs(s) \ {t}
      att == Attributed(s, x)
  IN [prov |-> s.prov, kind |-> s.kind, r |-> x.r, cb |-> cb, evt |-> s.cur.evt, mode |-> s.cur.mode,
      lastevt |-> IF known THEN s.lastevt[t] ELSE "",
      view |-> IF known THEN Class(ViewOf(s, t)) ELSE "",
      entry |-> IF known THEN Class(Entry(s.active, s.idOf, t)) ELSE "",
      prior |-> IF \E u \in att : s.prior[u] # "" THEN s.prior[CHOOSE u \in att : s.prior[u] # ""] ELSE "",
      reordered |-> s.reordered,
      refusing |-> s.refusing,
      other_unreadable |-> \E u \in others : ViewOf(s, u) \in Unreadable,
      other_refused |-> \E u \in others : ViewOf(s, u) \in Refused \/ (s.refusing /\ Parsable(ViewOf(s, u))),
      other_gone |-> \E u \in others : ViewOf(s, u) \in Gone /\ Entry(s.active, s.idOf, u) # "none"]

Entries(s, rs, cb, line) ==
  {[line |-> line, case |-> s.case, r |-> x.r, src |-> x.s, facts |-> Facts(s, x, cb)] : x \in rs}

(* remember the first reason per source: later rejections of the same source in the same scenario *)
(* may be consequences of it                                                                     *)
Taint(s, rs) ==
  [s EXCEPT !.prior = [t \in Srcs(s) |->
     IF s.prior[t] # "" THEN s.prior[t]
     ELSE LET mine == {x \in rs : t \in Attributed(s, x)} IN
          IF mine = {} THEN "" ELSE (CHOOSE x \in mine : TRUE).r]]

ActiveOf(pairs) ==
  LET ids == {pairs[k][1] : k \in 1..Len(pairs)} IN
  [i \in ids |-> pairs[CHOOSE k \in 1..Len(pairs) : pairs[k][1] = i][2]]

NonTrivialStep(s) ==
  \/ s.refusing
  \/ \E t \in StepSources(s) :
       LET v == ViewOf(s, t) IN
       \/ v \in Unreadable \cup Refused \cup Faults
       \/ v \in Gone /\ s.before[t] # "none"
       \/ IsValid(v) /\ s.before[t] \notin {"none", v}

(* Rejected events and the ids of non-trivial scenarios are collected in TLC registers (1 and 4), not in *)
(* the state: set-valued state variables would make every step linear in their size.                  *)
Init == /\ l = 1 /\ st = Idle /\ bad = 0 /\ div = {}
        /\ stats = [scenarios |-> 0, nontrivial |-> 0, calls |-> 0, steps |-> 0]
        /\ TLCSet(1, {}) /\ TLCSet(4, {})

Collect(es) == /\ bad' = bad + Cardinality(es)
               /\ (es # {}) => TLCSet(1, TLCGet(1) \cup es)

OnReset(e) == /\ st' = Fresh(e)
              /\ UNCHANGED <<bad, div>>
              /\ stats' = [stats EXCEPT !.scenarios = @ + 1]

OnEnv(e) ==
  LET S == Srcs(st)
      changed == {s \in S : e.content[s] # st.content[s]}
      unrefused == st.refusing /\ ~e.refusing
  IN /\ st' = [st EXCEPT !.content = [s \in S |-> e.content[s]], !.link = [s \in S |-> e.link[s]],
                         !.refusing = e.refusing, !.cur = NoCur,
                         !.dirty = IF unrefused THEN S ELSE @ \cup changed]
     /\ UNCHANGED <<bad, div, stats>>

OnStep(e) ==
  LET s1 == BeginStep(st, [src |-> e.src, evt |-> e.evt, ver |-> e.ver, mode |-> e.mode]) IN
  /\ st' = [s1 EXCEPT !.reordered = @ \/ e.mode \in {"late", "dup"},
                      !.lastevt = [t \in Srcs(s1) |-> IF t = e.src THEN e.evt ELSE s1.lastevt[t]],
                      !.nontrivial = @ \/ NonTrivialStep(s1)]
  /\ UNCHANGED <<bad, div>>
  /\ stats' = [stats EXCEPT !.steps = @ + 1]

OnCall(e) ==
  LET c == [cb |-> e.cb, id |-> e.id, src |-> e.src, ver |-> e.ver, ret |-> e.ret]
      rs == IF st.cur.src = "" THEN {R("call-outside-of-a-step", e.src)} ELSE CallReasons(st, c)
  IN /\ Collect(Entries(st, rs, e.cb, l))
     /\ st' = Apply(Taint(st, rs), c)
     /\ UNCHANGED div
     /\ stats' = [stats EXCEPT !.calls = @ + 1]

OnDone(e) ==
  LET rs == DoneReasons(st, st.kind # "fs")
            \cup (IF e.panic THEN {R("handler-panicked", st.cur.src)} ELSE {})
      looked == {s \in Srcs(st) :
                   \/ st.cur.src = "*"
                   \/ st.cur.src = s /\ (st.kind # "informer" \/
                        (st.cur.ver = st.content[s] /\ st.cur.evt # "resync"))}
  IN /\ Collect(Entries(st, rs, "", l))
     /\ div' = IF ActiveOf(e.active) = st.active THEN div
               ELSE div \cup {[line |-> l, case |-> st.case, what |-> "recorder and model disagree on the active sets"]}
     /\ st' = [Taint(st, rs) EXCEPT !.dirty = @ \ looked]
     /\ UNCHANGED stats

OnQuiet(e) ==
  LET s0 == [st EXCEPT !.cur = NoCur]
      rs == QuietReasons(s0, LAMBDA s : ~(Queued(s0) /\ s \in s0.dirty))
  IN /\ Collect(Entries(s0, rs, "", l))
     /\ st' = Taint(s0, rs)
     /\ UNCHANGED div
     /\ stats' = [stats EXCEPT !.nontrivial = IF st.nontrivial THEN @ + 1 ELSE @]
     /\ st.nontrivial => TLCSet(4, TLCGet(4) \cup {st.case})

Next ==
  /\ l <= Len(Trace)
  /\ LET e == Trace[l] IN
     CASE e.ev = "reset" -> OnReset(e)
       [] e.ev = "env"   -> OnEnv(e)
       [] e.ev = "step"  -> OnStep(e)
       [] e.ev = "call"  -> OnCall(e)
       [] e.ev = "done"  -> OnDone(e)
       [] e.ev = "quiet" -> OnQuiet(e)
  /\ l' = l + 1

Spec == Init /\ [][Next]_vars

Done ==
  /\ TLCGet("stats").diameter - 1 = Len(Trace)
  /\ JsonSerialize(OutFile, [lines |-> Len(Trace),
                             stats |-> [TLCGet(3) EXCEPT !.nontrivial = SetToSeq(TLCGet(4))],
                             bad |-> SetToSeq(TLCGet(1)), div |-> SetToSeq(TLCGet(2))])

Export == IF l = Len(Trace) + 1
          THEN TLCSet(2, div) /\ TLCSet(3, stats)
          ELSE TRUE
=============================================================================
