------------------------------- MODULE Signer -------------------------------
(***************************************************************************)
(* The JWT signer of heimdall's jwt finalizer with hot key-store reload    *)
(* (property C16).                                                         *)
(*                                                                         *)
(* Code modelled (internal/rules/mechanisms/finalizers/jwt_signer.go):     *)
(*   load()   ReadFile + parse + validate (no lock), then                  *)
(*            mut.Lock; jwk := ..; key := ..; pubKeys := ..; mut.Unlock    *)
(*            - or, on any error, return without touching the state        *)
(*   Sign()   mut.RLock; jwk, key := s.jwk, s.key; mut.RUnlock; then the   *)
(*            token is built and signed outside the lock                   *)
(*   Keys()   mut.RLock; return s.pubKeys; mut.RUnlock   (JWKS endpoint)   *)
(*                                                                         *)
(* One action per critical step.  A key-store *version* (one content of    *)
(* the key-store file) is a record                                         *)
(*    [valid, kid, alg, algs, key, pub]                                    *)
(* kid/alg describe the signing entry, key identifies the private key,     *)
(* pub is the complete public set (a set of "kid=key" strings), algs the   *)
(* JOSE algorithms admissible for the key's type.                          *)
(*                                                                         *)
(* The reference operators (TokenOfVersion, SetOfVersion, ActiveIn,        *)
(* SignClaims, ClaimsOK, ...) live in SignerOps and are shared with        *)
(* SignerTrace, which judges executions of the real code.                  *)
(***************************************************************************)
EXTENDS SignerOps

(* ------------------------ the design specification --------------------- *)

CONSTANTS Contents,    \* sequence of versions; Contents[1] is loaded at start-up
          Signers,     \* set of signer process ids
          NReloads,    \* number of key-store file rewrites
          Mutant       \* "none" or the name of a negative control

VARIABLES file,    \* index of the content currently in the key-store file
          cur,     \* the signer's state [jwk, key, pub]
          lock,    \* the RWMutex [w : BOOLEAN, r : set of readers]
          rl,      \* reloader [pc, n, tmp]
          sg,      \* signers  id -> [pc, lo, jwk, key]
          jr,      \* JWKS reader [pc, lo, set]
          hist,    \* ghost: versions that became active, in order
          tokens,  \* ghost: issued tokens with their request windows
          reads    \* ghost: JWKS responses with their request windows

vars == <<file, cur, lock, rl, sg, jr, hist, tokens, reads>>

StoreOf(v) == [jwk |-> <<v.kid, v.alg>>, key |-> v.key, pub |-> v.pub]
Cleared == [jwk |-> <<"", "">>, key |-> "", pub |-> {}]

Iss == "heimdall"
Ttl == 5
Customs == {[foo |-> "bar"],
            [foo |-> "bar", sub |-> "evil", iss |-> "evil"],
            [iat |-> 0, nbf |-> 1, exp |-> 0],
            [jti |-> "fixed", sub |-> "evil", exp |-> 99]}
Times == {10, 11}

(* claims as built by the (possibly mutated) Sign for every custom-claims  *)
(* template and every pair of clock readings                               *)
BuiltClaims(sub) ==
  CASE Mutant = "system_claims_first" ->
         {Overlay(System(sub, Iss, t, t, Ttl), c) : c \in Customs, t \in Times}
    [] Mutant = "two_clock_reads" ->
         {Overlay(c, System(sub, Iss, t1, t2, Ttl)) : c \in Customs, t1 \in Times, t2 \in Times}
    [] OTHER ->
         {SignClaims(c, sub, Iss, t, Ttl) : c \in Customs, t \in Times}

Init ==
  /\ file = 1
  /\ cur = StoreOf(Contents[1])
  /\ lock = [w |-> FALSE, r |-> {}]
  /\ rl = [pc |-> "idle", n |-> 0, tmp |-> 1]
  /\ sg = [k \in Signers |-> [pc |-> "idle", lo |-> 0, jwk |-> <<"", "">>, key |-> ""]]
  /\ jr = [pc |-> "idle", lo |-> 0, set |-> {}]
  /\ hist = <<1>>
  /\ tokens = {}
  /\ reads = {}

(* ------------------------------ reloader ------------------------------- *)

Write(i) ==
  /\ rl.pc = "idle" /\ rl.n < NReloads
  /\ file' = i
  /\ rl' = [rl EXCEPT !.pc = "read", !.n = rl.n + 1]
  /\ UNCHANGED <<cur, lock, sg, jr, hist, tokens, reads>>

Read ==
  /\ rl.pc = "read"
  /\ rl' = [rl EXCEPT !.pc = "parse", !.tmp = file]
  /\ UNCHANGED <<file, cur, lock, sg, jr, hist, tokens, reads>>

(* parse + validate: a rejected content leaves the state alone (Keep)      *)
Parse ==
  /\ rl.pc = "parse"
  /\ IF Contents[rl.tmp].valid
     THEN rl' = [rl EXCEPT !.pc = "lock"] /\ UNCHANGED cur
     ELSE /\ rl' = [rl EXCEPT !.pc = "idle"]
          /\ cur' = IF Mutant = "reject_clears" THEN Cleared ELSE cur
  /\ UNCHANGED <<file, lock, sg, jr, hist, tokens, reads>>

WLock ==
  /\ rl.pc = "lock"
  /\ ~lock.w /\ lock.r = {}
  /\ lock' = [lock EXCEPT !.w = TRUE]
  /\ rl' = [rl EXCEPT !.pc = "a1"]
  /\ UNCHANGED <<file, cur, sg, jr, hist, tokens, reads>>

AssignJwk ==
  /\ rl.pc = "a1"
  /\ cur' = [cur EXCEPT !.jwk = StoreOf(Contents[rl.tmp]).jwk]
  /\ rl' = [rl EXCEPT !.pc = "a2"]
  /\ UNCHANGED <<file, lock, sg, jr, hist, tokens, reads>>

AssignKey ==
  /\ rl.pc = "a2"
  /\ cur' = [cur EXCEPT !.key = Contents[rl.tmp].key]
  /\ rl' = [rl EXCEPT !.pc = IF Mutant = "pub_outside_lock" THEN "unlock" ELSE "a3"]
  /\ UNCHANGED <<file, lock, sg, jr, hist, tokens, reads>>

AssignPub ==
  /\ rl.pc = "a3"
  /\ cur' = [cur EXCEPT !.pub = Contents[rl.tmp].pub]
  /\ rl' = [rl EXCEPT !.pc = IF Mutant = "pub_outside_lock" THEN "idle" ELSE "unlock"]
  /\ UNCHANGED <<file, lock, sg, jr, hist, tokens, reads>>

(* the new version is active from the release of the write lock            *)
WUnlock ==
  /\ rl.pc = "unlock"
  /\ lock' = [lock EXCEPT !.w = FALSE]
  /\ hist' = Append(hist, rl.tmp)
  /\ rl' = [rl EXCEPT !.pc = IF Mutant = "pub_outside_lock" THEN "a3" ELSE "idle"]
  /\ UNCHANGED <<file, cur, sg, jr, tokens, reads>>

Reloader == (\E i \in 2..Len(Contents) : Write(i)) \/ Read \/ Parse \/ WLock
            \/ AssignJwk \/ AssignKey \/ AssignPub \/ WUnlock

(* ------------------------------- signers ------------------------------- *)

SStart(k) ==
  /\ sg[k].pc = "idle"
  /\ sg' = [sg EXCEPT ![k].pc = "rlock", ![k].lo = Len(hist)]
  /\ UNCHANGED <<file, cur, lock, rl, jr, hist, tokens, reads>>

SRLock(k) ==
  /\ sg[k].pc \in {"rlock", "rlock2"}
  /\ Mutant = "no_read_lock" \/ ~lock.w
  /\ lock' = [lock EXCEPT !.r = lock.r \cup {k}]
  /\ sg' = [sg EXCEPT ![k].pc = IF sg[k].pc = "rlock" THEN "rjwk" ELSE "rkey"]
  /\ UNCHANGED <<file, cur, rl, jr, hist, tokens, reads>>

SReadJwk(k) ==
  /\ sg[k].pc = "rjwk"
  /\ IF Mutant = "two_locks"   \* jwk and key read under two separate lock acquisitions
     THEN /\ sg' = [sg EXCEPT ![k].pc = "rlock2", ![k].jwk = cur.jwk]
          /\ lock' = [lock EXCEPT !.r = lock.r \ {k}]
     ELSE /\ sg' = [sg EXCEPT ![k].pc = "rkey", ![k].jwk = cur.jwk]
          /\ UNCHANGED lock
  /\ UNCHANGED <<file, cur, rl, jr, hist, tokens, reads>>

SReadKey(k) ==
  /\ sg[k].pc = "rkey"
  /\ sg' = [sg EXCEPT ![k].pc = "runlock", ![k].key = cur.key]
  /\ UNCHANGED <<file, cur, lock, rl, jr, hist, tokens, reads>>

SRUnlock(k) ==
  /\ sg[k].pc = "runlock"
  /\ lock' = [lock EXCEPT !.r = lock.r \ {k}]
  /\ sg' = [sg EXCEPT ![k].pc = "sign"]
  /\ UNCHANGED <<file, cur, rl, jr, hist, tokens, reads>>

(* signing happens outside the lock; the request ends with it              *)
SSign(k) ==
  /\ sg[k].pc = "sign"
  /\ tokens' = tokens \cup
       {[by |-> k, kid |-> sg[k].jwk[1], alg |-> sg[k].jwk[2], key |-> sg[k].key,
         lo |-> sg[k].lo, hi |-> Len(hist),
         claimsOK |-> \A c \in BuiltClaims(k) : ClaimsOK(c, k, Iss, Ttl, 10, 11)]}
  /\ sg' = [sg EXCEPT ![k].pc = "done"]
  /\ UNCHANGED <<file, cur, lock, rl, jr, hist, reads>>

SignerStep(k) == SStart(k) \/ SRLock(k) \/ SReadJwk(k) \/ SReadKey(k) \/ SRUnlock(k) \/ SSign(k)

(* ----------------------------- JWKS reader ----------------------------- *)

JStart ==
  /\ jr.pc = "idle"
  /\ jr' = [jr EXCEPT !.pc = "rlock", !.lo = Len(hist)]
  /\ UNCHANGED <<file, cur, lock, rl, sg, hist, tokens, reads>>

JRLock ==
  /\ jr.pc = "rlock"
  /\ ~lock.w
  /\ lock' = [lock EXCEPT !.r = lock.r \cup {"jwks"}]
  /\ jr' = [jr EXCEPT !.pc = "read"]
  /\ UNCHANGED <<file, cur, rl, sg, hist, tokens, reads>>

JRead ==
  /\ jr.pc = "read"
  /\ jr' = [jr EXCEPT !.pc = "runlock", !.set = cur.pub]
  /\ UNCHANGED <<file, cur, lock, rl, sg, hist, tokens, reads>>

JRUnlock ==
  /\ jr.pc = "runlock"
  /\ lock' = [lock EXCEPT !.r = lock.r \ {"jwks"}]
  /\ reads' = reads \cup {[set |-> jr.set, lo |-> jr.lo, hi |-> Len(hist)]}
  /\ jr' = [jr EXCEPT !.pc = "done"]
  /\ UNCHANGED <<file, cur, rl, sg, hist, tokens>>

JwksReader == JStart \/ JRLock \/ JRead \/ JRUnlock

Next == Reloader \/ (\E k \in Signers : SignerStep(k)) \/ JwksReader

Spec == Init /\ [][Next]_vars /\ WF_vars(Reloader) /\ WF_vars(JwksReader)
             /\ \A k \in Signers : WF_vars(SignerStep(k))

(* ------------------------------ properties ----------------------------- *)

(* a token's kid / alg / signing key belong to ONE key-store version that  *)
(* was active between the start and the end of its request                 *)
PairConsistent ==
  \A t \in tokens : \E i \in ActiveIn(hist, t.lo, t.hi) : TokenOfVersion(t, Contents[i])

(* every JWKS response is the complete public set of exactly one version   *)
(* that was active during the read                                         *)
JwksUntorn ==
  \A r \in reads : \E i \in ActiveIn(hist, r.lo, r.hi) : SetOfVersion(r.set, Contents[i])

(* outside the writer's critical section the state is the last accepted    *)
(* version - in particular after a rejected reload                         *)
RejectedReloadKeeps ==
  /\ \A i \in 1..Len(hist) : Contents[hist[i]].valid
  /\ ~lock.w => cur = StoreOf(Contents[hist[Len(hist)]])

RejectKeepsStep ==
  [][(rl.pc = "parse" /\ ~Contents[rl.tmp].valid /\ rl'.pc = "idle") => (cur' = cur /\ hist' = hist)]_vars

(* state is written only under the write lock, read only under a read lock *)
(* (what the race detector observes on the real code)                      *)
LockDiscipline ==
  /\ lock.w => lock.r = {}
  /\ rl.pc \in {"a1", "a2", "a3", "unlock"} => lock.w
  /\ \A k \in Signers : sg[k].pc \in {"rjwk", "rkey", "runlock"} => (k \in lock.r /\ ~lock.w)
  /\ jr.pc \in {"read", "runlock"} => ("jwks" \in lock.r /\ ~lock.w)

ClaimsRule == \A t \in tokens : t.claimsOK

AllDone == rl.pc = "idle" /\ rl.n = NReloads /\ jr.pc = "done" /\ \A k \in Signers : sg[k].pc = "done"

Terminates == <>AllDone
=============================================================================
