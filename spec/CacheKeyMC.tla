------------------------------ MODULE CacheKeyMC ------------------------------
(***************************************************************************)
(* Design run: a mechanism with key derivation KeyFn in front of a store,  *)
(* arbitrary sequences of up to MaxEvals evaluations over time.  The       *)
(* values are chosen so that a boundary shift exists: ("a","bc") and       *)
(* ("ab","c") concatenate to the same string.  With the ideal key both     *)
(* directions hold; each defective key is refuted.                         *)
(***************************************************************************)
EXTENDS CacheKey, TLC

CONSTANTS KeyFn, MaxEvals

TTL == 2
MaxTime == 3
Policies == {<<"p">>, <<"q">>}
In1 == {<<"a">>, <<"a", "b">>}
In2 == {<<"b", "c">>, <<"c">>}
Evals == {[mech |-> "m", policy |-> p, inputs |-> <<x, y>>] : p \in Policies, x \in In1, y \in In2}

VARIABLES now, store, ref, n, last

vars == <<now, store, ref, n, last>>

NoLast == [any |-> FALSE, hit |-> FALSE, exp |-> FALSE, same |-> TRUE, remote |-> 0]

Init == now = 0 /\ store = {} /\ ref = {} /\ n = 0 /\ last = NoLast

Tick == now < MaxTime /\ now' = now + 1 /\ UNCHANGED <<store, ref, n, last>>

Live(k) == {r \in store : r.k = k /\ now <= r.at + TTL}

Eval(e, salt) ==
  /\ n < MaxEvals /\ n' = n + 1
  /\ LET k == KeyOf(KeyFn, e, salt)
         hit == Live(k) # {}
         exp == RefHit(ref, e, now, TTL)
     IN /\ IF hit
           THEN /\ store' = store
                /\ LET r == CHOOSE r \in Live(k) : TRUE IN
                   last' = [any |-> TRUE, hit |-> TRUE, exp |-> exp, same |-> Triple(r.e) = Triple(e), remote |-> 0]
           ELSE /\ store' = {r \in store : r.k # k} \cup {[k |-> k, e |-> e, at |-> now]}
                /\ last' = [any |-> TRUE, hit |-> FALSE, exp |-> exp, same |-> TRUE, remote |-> 1]
        /\ ref' = IF exp THEN ref ELSE ref \cup {[e |-> e, at |-> now]}
  /\ UNCHANGED now

Next == Tick \/ \E e \in Evals, salt \in {0, 1} : Eval(e, salt)

Spec == Init /\ [][Next]_vars

InvNoCrossReuse == last.any => NoCrossOK(last.exp, last.hit, last.same)
InvReuseWhenEqual == last.any => ReuseOK(last.exp, last.hit, last.remote)
(* vacuity controls *)
SomeHit == ~(last.any /\ last.hit)
=============================================================================
