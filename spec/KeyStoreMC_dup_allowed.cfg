SPECIFICATION Spec
CONSTANTS
  Mutant = "dup_allowed"
  MaxKeys = 2
  MaxCerts = 2
  WideCerts = 1
  MultiKeyCerts = 1
CHECK_DEADLOCK FALSE
INVARIANTS
  InvUniqueKids
