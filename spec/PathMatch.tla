------------------------------ MODULE PathMatch ------------------------------
(***************************************************************************)
(* Reference semantics of rule matching (properties C02, C03; used by      *)
(* RuleIndex for C06 and by Encoding for C08).                             *)
(*                                                                         *)
(* A path expression is a sequence of tokens, one per path segment:        *)
(*   [t |-> "lit",  v |-> s, n |-> ""]   literal segment s (s may be "":   *)
(*                                        trailing or doubled slash;       *)
(*                                        backslash-escaped ':'/'*' are    *)
(*                                        literals and arrive here as such)*)
(*   [t |-> "one",  v |-> "", n |-> x]   single wildcard ":x" (n = ""      *)
(*                                        for the unnamed ":*")            *)
(*   [t |-> "free", v |-> "", n |-> x]   free wildcard "*x" / "**", last   *)
(* A request path is the sequence of its segments after the leading "/"    *)
(* ("/a/" = <<"a", "">>, "/" = <<"">>), already percent-decoded as far as  *)
(* matching is concerned (Encoding.tla deals with spellings).              *)
(*                                                                         *)
(* A rule: [id, src, bt, scheme, methods, hosts, routes] with              *)
(* routes = sequence of [expr, params]; hosts = sequence of                *)
(* [type, accepts] (accepts = set/sequence of host names the matcher       *)
(* accepts - the abstraction of an exact/glob/regex pattern);              *)
(* params = sequence of [name, type, accepts].                             *)
(***************************************************************************)
EXTENDS Naturals, Sequences, FiniteSets, SequencesExt

Rank(t) == CASE t.t = "lit" -> 0 [] t.t = "one" -> 1 [] t.t = "free" -> 2

ValidExpr(e) ==
  /\ Len(e) >= 1
  /\ \A i \in 1..Len(e) : e[i].t \in {"lit", "one", "free"} /\ (e[i].t = "free" => i = Len(e))

(* structural match of tokens i.. against segments j.. *)
RECURSIVE MatchFrom(_, _, _, _)
MatchFrom(e, i, p, j) ==
  IF i > Len(e) THEN j > Len(p)
  ELSE CASE e[i].t = "lit"  -> j <= Len(p) /\ p[j] = e[i].v /\ MatchFrom(e, i + 1, p, j + 1)
         [] e[i].t = "one"  -> j <= Len(p) /\ p[j] # "" /\ MatchFrom(e, i + 1, p, j + 1)
            \* a free wildcard takes the non-empty remainder of the path
         [] e[i].t = "free" -> j <= Len(p) /\ ~(j = Len(p) /\ p[j] = "")

Matches(e, p) == MatchFrom(e, 1, p, 1)

RECURSIVE JoinFrom(_, _)
JoinFrom(p, j) == IF j > Len(p) THEN "" ELSE IF j = Len(p) THEN p[j] ELSE p[j] \o "/" \o JoinFrom(p, j + 1)

(* captured values exposed to the pipeline: named wildcards only *)
Captures(e, p) ==
  {<<e[i].n, IF e[i].t = "one" THEN p[i] ELSE JoinFrom(p, i)>> :
     i \in {k \in 1..Len(e) : e[k].t \in {"one", "free"} /\ e[k].n # ""}}

(* The shape of an expression: everything but the wildcard names.  Two     *)
(* expressions of one shape match the same paths; whether they may coexist *)
(* with different names is left open.                                      *)
Shape(e) == [i \in 1..Len(e) |-> <<Rank(e[i]), e[i].v>>]

(* s1 is more specific than s2 (both match one path): first differing      *)
(* position decides, literal < single wildcard < free wildcard.            *)
RECURSIVE MoreSpecificFrom(_, _, _)
MoreSpecificFrom(s1, s2, i) ==
  IF i > Len(s1) \/ i > Len(s2) THEN FALSE
  ELSE IF s1[i][1] # s2[i][1] THEN s1[i][1] < s2[i][1]
  ELSE MoreSpecificFrom(s1, s2, i + 1)

MoreSpecific(s1, s2) == MoreSpecificFrom(s1, s2, 1)

(* ------------------------- additional conditions ----------------------- *)

StdMethods == {"GET", "HEAD", "POST", "PUT", "PATCH", "DELETE", "CONNECT", "OPTIONS", "TRACE"}


(* a methods list entry is [m |-> name, neg |-> BOOLEAN]; "ALL" is the name ALL *)
Negated(ms) == {ms[i].m : i \in {k \in 1..Len(ms) : ms[k].neg}}
Listed(ms) == {ms[i].m : i \in {k \in 1..Len(ms) : ~ms[k].neg /\ ms[k].m # "ALL"}}
HasAll(ms) == \E i \in 1..Len(ms) : ~ms[i].neg /\ ms[i].m = "ALL"

(* the set of methods a list stands for; an empty list stands for all      *)
MethodOK(ms, m) ==
  \/ Len(ms) = 0
  \/ m \in ((Listed(ms) \cup (IF HasAll(ms) THEN StdMethods ELSE {})) \ Negated(ms))

HostOK(hosts, h) == Len(hosts) = 0 \/ \E i \in 1..Len(hosts) : h \in ToSet(hosts[i].accepts)

ParamsOK(route, p) ==
  \A k \in 1..Len(route.params) :
     \E c \in Captures(route.expr, p) :
        c[1] = route.params[k].name /\ c[2] \in ToSet(route.params[k].accepts)

(* path_params see the captured values the way the rule's encoded-slash   *)
(* setting exposes them: with "on" an in-segment slash is decoded          *)
(* (req.pathOn, when the request carries one), otherwise it stays encoded  *)
ParamPath(rule, req) ==
  IF "pathOn" \in DOMAIN req /\ "slash" \in DOMAIN rule /\ rule.slash = "on" THEN req.pathOn ELSE req.path

RouteMatches(rule, route, req) ==
  /\ (rule.scheme = "" \/ rule.scheme = req.scheme)
  /\ MethodOK(rule.methods, req.method)
  /\ HostOK(rule.hosts, req.host)
  /\ ParamsOK(route, ParamPath(rule, req))

(* ------------------------------- lookup -------------------------------- *)

(* all (rule index, route index) pairs of a flat rule sequence, in order   *)
Owners(rules, sh) ==
  LET ok == {pr \in (1..Len(rules)) \X (1..4) :
               pr[2] <= Len(rules[pr[1]].routes) /\ Shape(rules[pr[1]].routes[pr[2]].expr) = sh}
  IN SortSeq(SetToSeq(ok), LAMBDA a, b : a[1] < b[1] \/ (a[1] = b[1] /\ a[2] < b[2]))

RouteIdx(rules) == {pr \in (1..Len(rules)) \X (1..4) : pr[2] <= Len(rules[pr[1]].routes)}
ExprAt(rules, pr) == rules[pr[1]].routes[pr[2]].expr

MatchingShapes(rules, p) ==
  {Shape(ExprAt(rules, pr)) : pr \in {q \in RouteIdx(rules) : Matches(ExprAt(rules, q), p)}}

MostSpecific(shapes) == CHOOSE s \in shapes : \A o \in shapes \ {s} : MoreSpecific(s, o)

Fallthrough == "<fallthrough>"

(* The set of allowed outcomes (rule ids or Fallthrough).  It is a         *)
(* singleton unless rules sharing one expression carry different           *)
(* backtracking flags (left open).                                         *)
RECURSIVE Walk(_, _, _)
Walk(rules, req, shapes) ==
  IF shapes = {} THEN {Fallthrough}
  ELSE LET sh == MostSpecific(shapes)
           own == Owners(rules, sh)
           hits == {k \in 1..Len(own) :
                      RouteMatches(rules[own[k][1]], rules[own[k][1]].routes[own[k][2]], req)}
       IN IF hits # {}
          THEN {rules[own[CHOOSE k \in hits : \A o \in hits : k <= o][1]].id}
          ELSE LET flags == {rules[own[k][1]].bt : k \in 1..Len(own)} IN
               (IF TRUE \in flags THEN Walk(rules, req, shapes \ {sh}) ELSE {})
               \cup (IF FALSE \in flags THEN {Fallthrough} ELSE {})

Lookup(rules, req) == Walk(rules, req, MatchingShapes(rules, req.path))

(* the expression that produced the answer id (for captures)               *)
MatchedRoute(rules, req, id) ==
  {pr \in RouteIdx(rules) : /\ rules[pr[1]].id = id
                            /\ Matches(ExprAt(rules, pr), req.path)
                            /\ RouteMatches(rules[pr[1]], rules[pr[1]].routes[pr[2]], req)}

(* ------------------- theorems checked by PathMatchMC ------------------- *)

(* among the distinct shapes matching one path, MoreSpecific is a strict   *)
(* total order, so MostSpecific is well defined                            *)
TotalOrderOn(shapes) ==
  \A a \in shapes, b \in shapes :
     a # b => (MoreSpecific(a, b) /\ ~MoreSpecific(b, a)) \/ (MoreSpecific(b, a) /\ ~MoreSpecific(a, b))

WildcardsNeverMatchEmpty(e, p) ==
  Matches(e, p) => \A i \in 1..Len(e) : (e[i].t = "one" => p[i] # "")

FreeTakesNonEmptyRemainder(e, p) ==
  (Matches(e, p) /\ e[Len(e)].t = "free") => JoinFrom(p, Len(e)) # ""
=============================================================================
