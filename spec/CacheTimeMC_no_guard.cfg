SPECIFICATION Spec
CONSTANTS Backend = "noexpiry"
  Mutant = "no_guard"
  Keys = {"k1"}
INVARIANTS InvNoHitAfterExpiry
CHECK_DEADLOCK FALSE
