------------------------------ MODULE Forwarded ------------------------------
(***************************************************************************)
(* Forwarded headers and trusted proxies (property C09; the request view   *)
(* used by ProxyForward for C15).                                          *)
(*                                                                         *)
(* A request arrives over a connection from `peer`.  It carries any subset *)
(* of the seven headers Names, each on 1 or 2 header lines (h[n] = number  *)
(* of lines, 0 = absent).  The service is configured with a trusted_proxies*)
(* list.  The request passes four steps: Strip (first middleware),         *)
(* Extract (request view: method, scheme, host, path, query, client        *)
(* addresses), Match (rule lookup on the view) and, in proxy mode, Forward *)
(* (what the upstream receives).                                           *)
(*                                                                         *)
(* Addresses are abstract: a family ("4", "6", or "6z" = IPv6 with a zone, *)
(* which only a peer can have) and a short bit string.  A list entry is    *)
(*    [k |-> "ip",   fam, bits]   a single address                         *)
(*    [k |-> "cidr", fam, pre ]   every address of fam whose bits start    *)
(*                                with pre                                 *)
(*    [k |-> "bad"] / [k |-> "badcidr"]   unparsable entry, without / with *)
(*                                "/" - ignored                            *)
(* (all entries carry all four fields so that they are records of one      *)
(* shape).  list = [set |-> BOOLEAN, entries |-> Seq(entry)]; set = FALSE  *)
(* is "trusted_proxies not configured".                                    *)
(*                                                                         *)
(* Values are symbolic.  A view component is                               *)
(*    "act"  taken from the actual request line / connection               *)
(*    "f1"   the value on the first line of the responsible header         *)
(*    "f2"   the value on its second line      "fj"  both, comma-joined    *)
(*    "xfp"  (path only) the value of X-Forwarded-Path                     *)
(*    "none" (query only) empty                                            *)
(* and the client address list is a sequence over "peer", F1 F2 (first     *)
(* Forwarded line), G1 (second), X1 X2 (first X-Forwarded-For line), Y1.   *)
(***************************************************************************)
EXTENDS Naturals, Sequences, FiniteSets

Names == {"forwarded", "for", "proto", "host", "uri", "path", "method"}

NoHeaders == [n \in Names |-> 0]

(* ------------------------------ trust ---------------------------------- *)

StartsWith(p, s) == Len(p) <= Len(s) /\ SubSeq(s, 1, Len(p)) = p

Covers(e, fam, bits) ==
  CASE e.k = "ip"   -> e.fam = fam /\ e.bits = bits
    [] e.k = "cidr" -> e.fam = fam /\ StartsWith(e.pre, bits)
    [] OTHER        -> FALSE

Listed(fam, bits, list) ==
  list.set /\ \E i \in 1..Len(list.entries) : Covers(list.entries[i], fam, bits)

(* "yes" / "no" as the property demands; "open" where the statement is     *)
(* silent: a zone-qualified peer whose address without the zone is listed. *)
Trust(peer, list) ==
  IF peer.fam = "6z"
  THEN IF Listed("6", peer.bits, list) THEN "open" ELSE "no"
  ELSE IF Listed(peer.fam, peer.bits, list) THEN "yes" ELSE "no"

(* ------------------------------ strip ---------------------------------- *)

Strip(trusted, h) == [n \in Names |-> IF trusted THEN h[n] ELSE 0]

(* ------------------------------ view ----------------------------------- *)

HeaderOf(comp) ==
  CASE comp = "method" -> "method"
    [] comp = "scheme" -> "proto"
    [] comp = "host"   -> "host"
    [] comp \in {"path", "query"} -> "uri"

Comps == {"method", "scheme", "host", "path", "query"}

FwdSyms(n) == IF n = 1 THEN {"f1"} ELSE {"f1", "f2", "fj"}

QuerySyms == {"none", "act", "f1", "f2"}

(* Symbols a view component may have, given the headers that survived the  *)
(* strip step.  f carries the flags of the case: uriq (the X-Forwarded-Uri *)
(* value has a query), actq (the actual request line has one).             *)
(* Left open: which line of a repeated header counts; the query when the   *)
(* X-Forwarded-Uri value has none (empty, or the actual one); everything   *)
(* about path and query when a trusted peer sends X-Forwarded-Path.        *)
AllowedComp(req, comp, f) ==
  LET n == req[HeaderOf(comp)] IN
  CASE comp \in {"method", "scheme", "host"} ->
         IF n = 0 THEN {"act"} ELSE FwdSyms(n)
    [] comp = "path" ->
         (IF n = 0 THEN {"act"} ELSE FwdSyms(n) \ {"fj"})
         \cup (IF req["path"] > 0 THEN {"xfp", "act", "f1", "f2"} ELSE {})
    [] comp = "query" ->
         IF req["path"] > 0 THEN QuerySyms
         ELSE IF n = 0 THEN {IF f.actq THEN "act" ELSE "none"}
         ELSE (IF f.uriq THEN {"f1"} ELSE {"none"} \cup (IF f.actq THEN {"act"} ELSE {}))
              \cup (IF n = 2 THEN {"f2"} ELSE {})

ActualView == [c \in Comps |-> "act"]

(* client address lists *)
FLists(n) == IF n = 0 THEN {} ELSE IF n = 1 THEN {<<"F1", "F2">>} ELSE {<<"F1", "F2">>, <<"F1", "F2", "G1">>}
XLists(n) == IF n = 0 THEN {} ELSE IF n = 1 THEN {<<"X1", "X2">>} ELSE {<<"X1", "X2">>, <<"X1", "X2", "Y1">>}

(* Left open: which of Forwarded / X-Forwarded-For wins when both are      *)
(* present, and whether the peer itself closes the list.                   *)
AllowedIPs(req) ==
  LET cands == IF req["forwarded"] = 0 /\ req["for"] = 0 THEN {<<>>}
               ELSE FLists(req["forwarded"]) \cup XLists(req["for"])
  IN {l \o <<"peer">> : l \in cands} \cup (cands \ {<<>>})

(* ------------------------------ match ---------------------------------- *)

NoRule == [path |-> "-", method |-> "-", host |-> "-", scheme |-> "-"]

(* The rule sets used by the check contain one rule per combination of     *)
(* {actual, forwarded (first line)} values of method, host and scheme and  *)
(* of {actual, forwarded, X-Forwarded-Path} paths; the id of the matched   *)
(* rule therefore tells which value every component had during matching.   *)
RuleFor(view) ==
  IF view.method \in {"act", "f1"} /\ view.scheme \in {"act", "f1"} /\ view.host \in {"act", "f1"}
     /\ view.path \in {"act", "f1", "xfp"}
  THEN [path |-> view.path, method |-> view.method, host |-> view.host, scheme |-> view.scheme]
  ELSE NoRule

ActualRule == [path |-> "act", method |-> "act", host |-> "act", scheme |-> "act"]

(* ------------------------------ forward -------------------------------- *)

(* What the upstream receives in each of the seven headers, as the set of  *)
(* sources the value is built from: "client" (a value the peer sent),      *)
(* "peer" (address of the connection), "conn" (host / scheme of the actual *)
(* request).  Forwarded is used unless one of X-Forwarded-For/-Proto/-Host *)
(* came in.                                                                *)
Recreate(req) ==
  LET cl(n) == IF req[n] > 0 THEN {"client"} ELSE {} IN
  IF req["for"] > 0 \/ req["proto"] > 0 \/ req["host"] > 0
  THEN [n \in Names |->
          CASE n = "for"   -> cl("for") \cup {"peer"}
            [] n = "proto" -> IF req["proto"] > 0 THEN {"client"} ELSE {"conn"}
            [] n = "host"  -> IF req["host"] > 0 THEN {"client"} ELSE {"conn"}
            [] OTHER       -> {}]
  ELSE [n \in Names |-> IF n = "forwarded" THEN cl("forwarded") \cup {"peer", "conn"} ELSE {}]

(* ------------------- the property, on one observation ------------------ *)

(* c: the case (peer, list, h, flags, mode); o: what was observed: rule,   *)
(* view, ips, visible (those of the seven headers the pipeline can read),  *)
(* leak (those of the seven headers in which the upstream received a value *)
(* sent by the peer).  Returns the names of the failed comparisons.        *)
Failed(c, o) ==
  LET t == Trust(c.peer, c.list) IN
  IF t = "no" THEN
       (IF o.rule # ActualRule THEN {"untrusted-matching-influenced"} ELSE {})
       \cup {"untrusted-view-" \o comp : comp \in {cc \in Comps : o.view[cc] # (IF cc = "query" /\ ~c.actq THEN "none" ELSE "act")}}
       \cup (IF o.ips # <<"peer">> THEN {"untrusted-client-ips"} ELSE {})
       \cup (IF o.visible # <<>> THEN {"untrusted-header-visible"} ELSE {})
       \cup (IF c.mode = "proxy" /\ o.leak # <<>> THEN {"untrusted-value-forwarded"} ELSE {})
  ELSE IF t = "yes" THEN
       LET req == c.h IN
       {"trusted-view-" \o comp : comp \in {cc \in Comps : o.view[cc] \notin AllowedComp(req, cc, c)}}
       \cup (IF o.ips \notin AllowedIPs(req) THEN {"trusted-client-ips"} ELSE {})
       \cup (IF o.rule # RuleFor(o.view) THEN {"trusted-matching-differs-from-view"} ELSE {})
  ELSE {}
=============================================================================
