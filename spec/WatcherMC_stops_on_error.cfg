SPECIFICATION Spec
CONSTANTS
  Files <- MCFiles
  Listeners <- MCListeners
  Reg <- MCReg
  MaxWrites = 2
  MaxErrors = 1
  Variant = "stops_on_error"
INVARIANTS NotifiedOfLast

CHECK_DEADLOCK FALSE
