----------------------------- MODULE ReloadTrace -----------------------------
(***************************************************************************)
(* Judges the events recorded by the C19 driver:                           *)
(*   feed{id, entry, class, outcome, stateKept, ...}                       *)
(*   request{id, entry, class, outcome, status, alive, ...}                *)
(* with the operators of Reload.tla.  One action, never blocking; all      *)
(* rejected events are collected.                                          *)
(***************************************************************************)
EXTENDS Reload, Json, IOUtils, SequencesExt

Trace == ndJsonDeserialize(IOEnv.VERIF_TRACE)
OutFile == IOEnv.VERIF_OUT

VARIABLES l, bad, stats

tvars == <<l, bad, stats, alive, loaded, last>>

TInit == Init /\ l = 1 /\ bad = 0 /\ TLCSet(1, {}) /\ stats = [feeds |-> 0, requests |-> 0, accepted |-> 0, rejected |-> 0,
                                      errors |-> 0, closed |-> 0, nontrivial |-> 0]

Reasons(e) ==
  IF e.ev = "feed" THEN FeedReasons(e.class, e.outcome, e.stateKept, e.alive)
  ELSE IF e.ev = "request" THEN RequestReasons(e.class, e.outcome, e.status, e.alive)
  ELSE {"unknown-event"}

TNext ==
  /\ l <= Len(Trace)
  /\ LET e == Trace[l]
         rs == Reasons(e)
     IN \* the rejected events are collected in TLC register 1 (not in the state: with thousands of
        \* rejections a set-valued state variable makes every step linear in their number)
        /\ bad' = IF rs = {} THEN bad ELSE bad + 1
        /\ (rs # {}) => TLCSet(1, TLCGet(1) \cup
               {[line |-> l, id |-> e.id, entry |-> e.entry, class |-> e.class, reasons |-> SetToSeq(rs)]})
        /\ stats' = IF e.ev = "feed"
                    THEN [stats EXCEPT !.feeds = @ + 1,
                                       !.accepted = @ + (IF e.outcome = "accepted" THEN 1 ELSE 0),
                                       !.rejected = @ + (IF e.outcome = "rejected" THEN 1 ELSE 0),
                                       !.nontrivial = @ + (IF Must(e.class) # "accept" THEN 1 ELSE 0)]
                    ELSE [stats EXCEPT !.requests = @ + 1,
                                       !.errors = @ + (IF e.outcome = "response" /\ ~IsSuccess(e.status) THEN 1 ELSE 0),
                                       !.closed = @ + (IF e.outcome = "closed" THEN 1 ELSE 0),
                                       !.nontrivial = @ + (IF Must(e.class) # "accept" THEN 1 ELSE 0)]
  /\ l' = l + 1
  /\ UNCHANGED vars    \* the automaton's own variables are not driven by the trace

TSpec == TInit /\ [][TNext]_tvars

Done ==
  /\ TLCGet("stats").diameter - 1 = Len(Trace)
  /\ JsonSerialize(OutFile, [lines |-> Len(Trace), stats |-> TLCGet(2), bad |-> SetToSeq(TLCGet(1))])

Export == IF l = Len(Trace) + 1 THEN TLCSet(2, stats) ELSE TRUE
=============================================================================
