------------------------------ MODULE CacheKeyGen ------------------------------
(***************************************************************************)
(* Abstract pairs (first, second) of evaluations for C11, enumerated by    *)
(* TLC from the component tables of the caching mechanisms:                *)
(*   equal    second = first (for every size: 0..4 endpoint headers, 0..4  *)
(*            values / scopes)                                             *)
(*   differ   second differs from first in exactly one component, for      *)
(*            every component (policy = rule-level assertions /            *)
(*            expressions / session checks)                                *)
(*   shift    second is a boundary shift of first across two adjacent      *)
(*            components: ("ab","c") versus ("a","bc")                     *)
(* A pair carries the ids the reference semantics needs: policy id and the *)
(* tuple of input ids of both evaluations (0 = the base value).            *)
(***************************************************************************)
EXTENDS CacheKey, Json, IOUtils, TLC, SequencesExt

Env(n, d) == IF n \in DOMAIN IOEnv THEN IOEnv[n] ELSE d
OutFile == Env("VERIF_GEN_OUT", "/tmp/c11pairs.ndjson")

(* ep_auth / ep_apikey: the authentication the endpoint is called with (basic_auth user|password,      *)
(* api_key name|value); ep_httpsig: http_message_signatures (signer name|key id); part of the           *)
(* endpoint's identity like its URL and headers                                                         *)
(* component tables: policy = components that are rule-level policy; inputs = everything else *)
(* the result depends on, in key order; shifts = adjacent boundaries that can be concretised;  *)
(* sizes: hdr / val = TRUE if the mechanism has a map of endpoint headers / of values (or a    *)
(* list of scopes) whose size is varied for equal pairs; hdrdef = headers the mechanism adds   *)
(* to the endpoint by itself (Accept, Content-Type)                                             *)
Mechs == <<
  (* expressions_error: rule-level expressions whose evaluation fails on the answer (no verdict at all); *)
  (* rendered_payload: same template, rendered from another request                                       *)
  [m |-> "remote_authorizer", policy |-> <<"expressions", "expressions_error">>,
   inputs |-> <<"ep_url", "ep_method", "ep_headers", "id", "fwd_headers", "payload", "ttl", "subject_id", "subject_attr", "values", "rendered_payload", "ep_auth", "ep_apikey", "ep_httpsig", "ep_header_lc", "ep_apikey_cookie", "ep_apikey_query">>,
   shifts |-> <<"ep_headers.k|v", "id|fwd_headers", "fwd_headers|payload", "values.k|v", "values.v|k", "ep_auth.k|v", "ep_apikey.k|v", "ep_httpsig.k|v">>, hdr |-> TRUE, val |-> TRUE, hdrdef |-> 0],
  [m |-> "generic_contextualizer", policy |-> <<>>,
   (* fwd_header_value / fwd_cookie_value: the value of a request header / cookie the mechanism forwards to the endpoint *)
   inputs |-> <<"ep_url", "ep_method", "ep_headers", "id", "fwd_headers", "fwd_cookies", "payload", "ttl", "subject_id", "subject_attr", "values", "rendered_payload", "ep_auth", "ep_apikey", "ep_httpsig", "ep_header_lc", "ep_apikey_cookie", "ep_apikey_query", "fwd_header_value", "fwd_cookie_value">>,
   shifts |-> <<"ep_headers.k|v", "fwd_headers|fwd_cookies", "fwd_cookies|payload", "values.k|v", "values.v|k", "ep_auth.k|v", "ep_apikey.k|v", "ep_httpsig.k|v", "fwd_header_value|fwd_cookie_value">>, hdr |-> TRUE, val |-> TRUE, hdrdef |-> 0],
  [m |-> "generic_authenticator", policy |-> <<"session_lifespan">>,
   inputs |-> <<"ep_url", "ep_headers", "credential", "payload", "ep_auth", "ep_apikey", "ep_header_lc", "ep_apikey_cookie", "ep_apikey_query", "fwd_header_value", "fwd_cookie_value">>,
   shifts |-> <<"ep_headers.k|v", "ep_auth.k|v", "ep_apikey.k|v", "fwd_header_value|fwd_cookie_value">>, hdr |-> TRUE, val |-> FALSE, hdrdef |-> 0],
  [m |-> "oauth2_introspection", policy |-> <<"assertions">>,
   inputs |-> <<"ep_url", "ep_headers", "credential", "ep_auth", "ep_apikey", "ep_header_lc", "ep_apikey_cookie", "ep_apikey_query">>,
   shifts |-> <<"ep_headers.k|v", "ep_auth.k|v", "ep_apikey.k|v">>, hdr |-> TRUE, val |-> FALSE, hdrdef |-> 2],
  (* the same authenticator configured by the server's metadata document (endpoint and issuer discovered) *)
  [m |-> "oauth2_introspection_md", policy |-> <<"assertions">>,
   inputs |-> <<"credential">>,
   shifts |-> <<>>, hdr |-> FALSE, val |-> FALSE, hdrdef |-> 2],
  (* jwk_validation: whether and against which trust store the key's certificate is validated *)
  [m |-> "jwt_jwk", policy |-> <<"jwk_validation">>,
   inputs |-> <<"ep_headers", "issuer", "kid">>,
   shifts |-> <<"issuer|kid">>, hdr |-> TRUE, val |-> FALSE, hdrdef |-> 1],
  [m |-> "jwt_finalizer", policy |-> <<>>,
   (* signer_reload: one finalizer, its key store replaced (another key first) and reloaded in between *)
   inputs |-> <<"signer_kid", "signer_name", "claims", "ttl", "subject_id", "subject_attr", "outputs", "signer_first_key",
                "signer_reload">>,
   shifts |-> <<"signer_kid|signer_name">>, hdr |-> FALSE, val |-> FALSE, hdrdef |-> 0],
  (* scopes_late: the scopes are overridden by a variant created from the same prototype after the *)
  (* prototype has been executed                                                                   *)
  [m |-> "cc_finalizer", policy |-> <<>>,
   inputs |-> <<"client_id", "client_secret", "token_url", "scopes", "scopes_late">>,
   shifts |-> <<"client_id|client_secret", "token_url|scopes", "scopes.a|b">>, hdr |-> FALSE, val |-> TRUE, hdrdef |-> 0],
  [m |-> "cc_strategy", policy |-> <<>>,
   inputs |-> <<"client_id", "client_secret", "token_url", "scopes">>,
   shifts |-> <<"client_id|client_secret", "token_url|scopes", "scopes.a|b">>, hdr |-> FALSE, val |-> TRUE, hdrdef |-> 0],
  [m |-> "httpcache", policy |-> <<>>,
   inputs |-> <<"url", "method", "authorization", "body", "url_case", "url_query_case", "authorization_case", "vary_header">>,
   shifts |-> <<"url|method">>, hdr |-> FALSE, val |-> FALSE, hdrdef |-> 0]
>>

Zeros(n) == [i \in 1..n |-> 0]

(* the two components a shift straddles: "a|b" -> both; "a.k|v" -> the one component a *)
Straddles(mc, sh) ==
  {i \in 1..Len(mc.inputs) :
     \/ \E j \in 1..Len(mc.inputs) : sh = mc.inputs[i] \o "|" \o mc.inputs[j] \/ sh = mc.inputs[j] \o "|" \o mc.inputs[i]
     \/ sh = mc.inputs[i] \o ".k|v" \/ sh = mc.inputs[i] \o ".a|b" \/ sh = mc.inputs[i] \o ".v|k"}

Pair(mc, rel, comp, nh, nv, p2, in2) ==
  [mech |-> mc.m, rel |-> rel, comp |-> comp, nh |-> nh, nv |-> nv,
   policy1 |-> 0, inputs1 |-> Zeros(Len(mc.inputs)), policy2 |-> p2, inputs2 |-> in2,
   comps |-> mc.inputs,
   (* trigger fields for known findings: a map with >= 2 entries is iterated when the key is derived *)
   hdr_unordered |-> mc.hdr /\ nh + mc.hdrdef >= 2, val_unordered |-> mc.val /\ nv >= 2 /\ mc.m \in {"remote_authorizer", "generic_contextualizer"}]

EqualPairs(mc) ==
  {Pair(mc, "equal", "-", nh, nv, 0, Zeros(Len(mc.inputs))) :
     nh \in IF mc.hdr THEN 0..4 ELSE {0}, nv \in IF mc.val THEN 0..4 ELSE {0}}

DifferPairs(mc) ==
  {Pair(mc, "differ", mc.inputs[i], 1, 1, 0, [Zeros(Len(mc.inputs)) EXCEPT ![i] = 1]) : i \in 1..Len(mc.inputs)}
  \cup {Pair(mc, "differ", mc.policy[i], 1, 1, 1, Zeros(Len(mc.inputs))) : i \in 1..Len(mc.policy)}

ShiftPairs(mc) ==
  {Pair(mc, "shift", mc.shifts[k], 1, 1, 0,
        [i \in 1..Len(mc.inputs) |-> IF i \in Straddles(mc, mc.shifts[k]) THEN 1 ELSE 0]) : k \in 1..Len(mc.shifts)}

(* Pairs without a demand (relation "open": observation only).  The value of a forwarded request    *)
(* header was one at first; it reaches the remote system and changes its answer, so reuse across    *)
(* such requests changes a decision - it is an input component now (fwd_header_value) and no open   *)
(* pair is left.                                                                                     *)
OpenPairs(mc) == {}

AllPairs == UNION {EqualPairs(Mechs[i]) \cup DifferPairs(Mechs[i]) \cup ShiftPairs(Mechs[i]) \cup OpenPairs(Mechs[i]) :
                     i \in 1..Len(Mechs)}

(* sanity: every shift changes at least one component, every differ exactly one *)
ASSUME \A p \in AllPairs :
  /\ p.rel = "shift" => \E i \in 1..Len(p.inputs2) : p.inputs2[i] = 1
  /\ p.rel = "equal" => (p.inputs2 = p.inputs1 /\ p.policy2 = p.policy1)

ASSUME LET ps == SetToSeq(AllPairs) IN
  /\ ndJsonSerialize(OutFile, ps)
  /\ PrintT(<<"GENERATED", Len(ps)>>)
=============================================================================
