SPECIFICATION Spec
CONSTANTS W = 2
  MaxList = 2
  Mutant = "extract_before_strip"
INVARIANTS InvTrust InvProperty InvUntrusted InvTrusted InvUpstream
CHECK_DEADLOCK FALSE
