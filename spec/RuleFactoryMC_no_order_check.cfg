SPECIFICATION Spec
CONSTANT Mutant = "no_order_check"
INVARIANTS StageWise BtRule RejectsMalformed
CHECK_DEADLOCK FALSE
