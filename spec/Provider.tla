------------------------------ MODULE Provider ------------------------------
(***************************************************************************)
(* C18 - rule providers converge to the latest valid content of their      *)
(* sources.                                                                *)
(*                                                                         *)
(* One module for the four provider shapes (constant Kind):                *)
(*   "fs"        event driven (file system provider, fsnotify events)      *)
(*   "poll1"     poller, one source per endpoint (http_endpoint)           *)
(*   "pollN"     poller, many sources behind one endpoint (cloud_blob)     *)
(*   "informer"  informer callbacks carrying the object (kubernetes)       *)
(*                                                                         *)
(* Content classes of a source: "absent", "empty" (nothing to load),       *)
(* "invalid" (does not parse / fails validation), "bad" (parses, but the   *)
(* rule-set processor refuses it), every other string is a valid version.  *)
(* Fetch faults (pollers): link "refused" = connection-level communication *)
(* error, "s5xx" = the endpoint answers with a server error.               *)
(*                                                                         *)
(* The first part is the *contract*: which processor calls are allowed in  *)
(* a given situation (CallReasons), what must hold when a provider step    *)
(* is finished (DoneReasons) and at quiescence (QuietReasons).  These      *)
(* operators are used unchanged by ProviderTrace to judge the calls the    *)
(* real providers make at a recording rule.SetProcessor.  The second part  *)
(* is the reference provider (hash bookkeeping as the statement describes  *)
(* it) with the environment; ProviderMC checks that it fulfils the         *)
(* contract for every environment history and refutes mutants.             *)
(***************************************************************************)
EXTENDS Naturals, Sequences, FiniteSets, TLC

Gone       == {"absent", "empty"}
Unreadable == {"invalid"}
Refused    == {"bad"}
Faults     == {"commerr", "s5xx"}
IsValid(c)  == c \notin Gone \cup Unreadable \cup Refused \cup Faults \cup {"none", ""}
Parsable(c) == IsValid(c) \/ c \in Refused

(* what a provider can learn about a source *)
View(content, link, s) ==
  CASE link[s] = "refused" -> "commerr"
    [] link[s] = "s5xx"    -> "s5xx"
    [] OTHER               -> content[s]

(* the version active for source s ("none" if nothing is loaded) *)
Entry(active, idOf, s) == IF idOf[s] \in DOMAIN active THEN active[idOf[s]] ELSE "none"

(***************************************************************************)
(* The contract.                                                           *)
(***************************************************************************)

(* state of a source after a provider step that looked at it; refusing: the processor currently *)
(* refuses every load (e.g. a conflict with another rule set), a transient condition             *)
Synced(view, before, after, refusing) ==
  CASE view \in Gone                                -> after = "none"      \* removed / emptied / not found: unloaded
    [] view \in Unreadable \cup Refused             -> after = before      \* invalid new version: previous stays
    [] view = "commerr"                             -> after = before      \* communication error changes nothing
    [] view = "s5xx"                                -> after \in {before, "none"}   \* left open
    [] OTHER                                        -> IF refusing THEN after = before
                                                       ELSE after = view   \* latest valid content

(* state of a source at quiescence *)
Converged(view, after, refusing) ==
  CASE view \in Gone                                -> after = "none"
    [] view \in Unreadable \cup Refused \cup Faults -> TRUE               \* judged per step (Synced)
    [] OTHER                                        -> refusing \/ after = view

(* st: [kind, content, link, refusing, active, idOf, ever, offered, called, cur, before]  *)
(*   offered[s]: the version of the latest load call for s (accepted or not)             *)
(*   cur: the provider step in progress [src, evt, ver]; src = "*" for a whole endpoint  *)
ViewOf(st, s) ==
  IF st.kind = "informer" /\ st.cur.src = s THEN st.cur.ver
  ELSE View(st.content, st.link, s)

Owners(st, id) == {s \in DOMAIN st.idOf : st.idOf[s] = id}

R(r, s) == [r |-> r, s |-> s]

(* reasons why an OnCreated / OnUpdated call c = [cb, id, src, ver, ret] is not allowed *)
LoadReasons(st, c) ==
  LET s == c.src IN
  IF s \notin DOMAIN st.content THEN {R("call-for-unknown-source", s)}
  ELSE
  LET v == ViewOf(st, s)
      e == Entry(st.active, st.idOf, s)
  IN (IF v = "commerr" THEN {R("call-on-communication-error", s)} ELSE {})
     \cup (IF v # "commerr" /\ c.ver # v THEN {R("content-not-current", s)} ELSE {})
     \cup (IF e = c.ver /\ st.offered[s] = c.ver
             THEN {R("spurious-call", s)} ELSE {})                               \* NoSpuriousCall
     \cup (IF s \in st.called THEN {R("duplicate-call", s)} ELSE {})             \* ExactlyOnce (at most once)
     \cup (IF c.cb = "OnCreated" /\ c.id \in DOMAIN st.active
             THEN {R("created-while-active", s)} ELSE {})
     \cup (IF c.cb = "OnUpdated" /\ e # "none" /\ c.id # st.idOf[s]
             THEN {R("update-under-different-id", s)} ELSE {})

(* reasons why an OnDeleted call is not allowed (DeleteTargetsCreatedId and friends) *)
DeleteReasons(st, c) ==
  IF c.id \notin st.ever THEN {R("delete-unknown-id", st.cur.src)}
  ELSE IF c.id \notin DOMAIN st.active THEN {}          \* repeated unload of something not loaded: harmless, open
  ELSE LET own == Owners(st, c.id) IN
       UNION {
         LET v == ViewOf(st, s) IN
         IF v \in Gone \cup {"s5xx"} THEN {}
         ELSE IF v = "commerr" THEN {R("call-on-communication-error", s)}
         \* also upon a lagging remove notification (the file exists again): what the file holds now
         \* decides, unloading it would be a reload of unchanged content or a change applied in two steps
         ELSE {R("delete-of-existing-source", s)}
         : s \in own }

CallReasons(st, c) ==
  IF c.cb = "OnDeleted" THEN DeleteReasons(st, c) ELSE LoadReasons(st, c)

RestrictTo(f, D) == [x \in D |-> f[x]]

(* effect of a call on the recording processor (the real processor: add / replace / remove by id) *)
Apply(st, c) ==
  IF c.cb = "OnDeleted" THEN
     IF c.ret = "ok"
     THEN [st EXCEPT !.active = RestrictTo(st.active, DOMAIN st.active \ {c.id}),
                     !.offered = [s \in DOMAIN st.offered |->
                                    IF s \in Owners(st, c.id) THEN "none" ELSE st.offered[s]]]
     ELSE st
  ELSE IF c.src \notin DOMAIN st.content THEN st
  ELSE LET st1 == [st EXCEPT !.ever = @ \cup {c.id}, !.called = @ \cup {c.src},
                             !.offered = [@ EXCEPT ![c.src] = c.ver]] IN
       IF c.ret = "ok"
       THEN [st1 EXCEPT !.active = (c.id :> c.ver) @@ st.active, !.idOf = [@ EXCEPT ![c.src] = c.id]]
       ELSE st1

StepSources(st) ==
  IF st.cur.src = "*" THEN DOMAIN st.content ELSE {st.cur.src} \cap DOMAIN st.content

(* when a provider step is finished (strict: the step must have synchronised what it looked at) *)
DoneReasons(st, strict) ==
  IF ~strict \/ (st.kind = "informer" /\ st.cur.evt = "resync") THEN {}   \* a resync announces no change
  ELSE {R("not-synced-after-step", s) : s \in
          {s \in StepSources(st) :
             ~Synced(ViewOf(st, s), st.before[s], Entry(st.active, st.idOf, s), st.refusing)}}

(* at quiescence; notified(s): the provider had the chance to see the last change of s *)
QuietReasons(st, notified(_)) ==
  {R("not-converged", s) : s \in
     {s \in DOMAIN st.content :
        notified(s) /\ ~Converged(View(st.content, st.link, s), Entry(st.active, st.idOf, s), st.refusing)}}

BeginStep(st, cur) ==
  [st EXCEPT !.cur = cur, !.called = {},
             !.before = [s \in DOMAIN st.content |-> Entry(st.active, st.idOf, s)]]

(***************************************************************************)
(* The reference provider.                                                 *)
(***************************************************************************)
CONSTANTS Kind,       \* provider shape
          Mutant      \* "none" or the name of a deliberately wrong variant (negative controls)

Id(s) == "id-" \o s
NoCalls(stored) == [calls |-> <<>>, stored |-> stored]

Call(cb, id, s, v, ret) == [cb |-> cb, id |-> id, src |-> s, ver |-> v, ret |-> ret]

(* synchronise one source from what can be seen of it; b resolves the open s5xx case *)
RefSync(s, v, storedS, b, refusing) ==
  LET gone == \/ v \in Gone
              \/ (v = "s5xx" /\ b)
              \/ (Mutant = "commerr_unloads" /\ v = "commerr")
              \/ (Mutant = "invalid_unloads" /\ v \in Unreadable)
      keep == v \in Unreadable \/ v \in Faults
      delId == IF Mutant = "delete_other_id" THEN "blob:" \o Id(s) ELSE Id(s)
      swap == Mutant = "swap_created_updated"
      accepted == v \notin Refused /\ ~refusing
  IN IF gone THEN
        IF storedS # "none"
        THEN [calls |-> <<Call("OnDeleted", delId, "", "", "ok")>>, stored |-> "none"]
        ELSE NoCalls(storedS)
     ELSE IF keep THEN NoCalls(storedS)
     ELSE IF storedS = v /\ Mutant # "always_update" THEN NoCalls(storedS)
     ELSE [calls |-> <<Call(IF (storedS = "none") # swap THEN "OnCreated" ELSE "OnUpdated",
                            Id(s), s, v, IF accepted THEN "ok" ELSE "refused")>>,
           stored |-> IF accepted \/ Mutant = "store_on_refusal" THEN v ELSE storedS]

(* informer callbacks: no stored hash, the event kind decides *)
RefInformer(e, refusing) ==
  LET ret == IF e.ver \in Refused \/ refusing THEN "refused" ELSE "ok" IN
  CASE e.evt = "add"    -> <<Call("OnCreated", Id(e.src), e.src, e.ver, ret)>>
    [] e.evt = "update" -> <<Call("OnUpdated", Id(e.src), e.src, e.ver, ret)>>
    [] e.evt = "delete" -> <<Call("OnDeleted", Id(e.src), "", "", "ok")>>
    [] OTHER            -> IF Mutant = "always_update"
                           THEN <<Call("OnUpdated", Id(e.src), e.src, e.ver, "ok")>> ELSE <<>>   \* resync

RECURSIVE Exec(_, _, _)
(* performs the calls on the contract state, collecting the reasons of disallowed ones *)
Exec(st, calls, reasons) ==
  IF calls = <<>> THEN [st |-> st, reasons |-> reasons]
  ELSE Exec(Apply(st, Head(calls)), Tail(calls), reasons \cup {x.r : x \in CallReasons(st, Head(calls))})
=============================================================================
