SPECIFICATION Spec
CONSTANT Mutant = "listwise"
INVARIANTS StageWise BtRule RejectsMalformed
CHECK_DEADLOCK FALSE
