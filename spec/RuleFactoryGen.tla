---------------------------- MODULE RuleFactoryGen ----------------------------
(* Enumerates the C14 cases: every default rule x every execute sequence up to  *)
(* MaxLen entries over the step kinds x on_error x backtracking x mode.         *)
EXTENDS RuleFactory, Json, IOUtils, TLC, SequencesExt, FiniteSetsExt

Env(n, d) == IF n \in DOMAIN IOEnv THEN IOEnv[n] ELSE d
OutFile == Env("VERIF_GEN_OUT", "/tmp/c14.ndjson")
MaxLen == atoi(Env("VERIF_GEN_LEN", "3"))

KindSet == {"a", "z", "c", "f", "u", "b", "x"}

RECURSIVE Seqs(_)
Seqs(n) == IF n = 0 THEN {<<>>} ELSE LET s == Seqs(n - 1) IN s \cup {Append(x, k) : x \in {y \in s : Len(y) = n - 1}, k \in KindSet}

Defaults ==
  {[present |-> FALSE, h |-> FALSE, f |-> FALSE, e |-> FALSE, bt |-> FALSE]}
  \cup {[present |-> TRUE, h |-> h, f |-> f, e |-> e, bt |-> b] : h \in BOOLEAN, f \in BOOLEAN, e \in BOOLEAN, b \in BOOLEAN}

Cases ==
  {[def |-> d, mode |-> m, execute |-> ex, on_error |-> oe, bt |-> b, forward_to |-> ft, emptyif |-> FALSE] :
     d \in Defaults, m \in {"decision", "proxy"}, ex \in Seqs(MaxLen),
     oe \in {<<>>, <<"e">>, <<"u">>, <<"x">>, <<"e", "e">>}, b \in {"unset", "true", "false"}, ft \in BOOLEAN}

ASSUME LET cs == SetToSeq(Cases) IN
  /\ ndJsonSerialize(OutFile, cs)
  /\ PrintT(<<"GENERATED", Len(cs)>>)
=============================================================================
