----------------------------- MODULE HeimdallGen -----------------------------
(***************************************************************************)
(* Environment histories for the composition check "e2e", enumerated by    *)
(* TLC and written as NDJSON.  A history is a sequence of environment      *)
(* steps over the sources s1, s2 of one service:                           *)
(*   set     the source gets a new content: the next valid version         *)
(*           (named and composed by HeimdallOps!VerName / VerRules, the    *)
(*           operators the judge uses), empty, or invalid                  *)
(*   remove  the file is unlinked / the endpoint answers 404               *)
(* with, for file sources, the way the file is written (atomic: complete   *)
(* file renamed into the directory; inplace: truncate, then write) and     *)
(* whether the writer waits for the acknowledgement afterwards (settle).   *)
(* Steps marked pre are performed before the service starts (initial       *)
(* load).  The driver runs one writer per source and always settles every  *)
(* source at the end.                                                      *)
(*                                                                         *)
(* Families: exh (every history of at most VERIF_GEN_N steps over one      *)
(* source), upd (pure update chains v1 -> v2 -> ... on both sources, the   *)
(* home of E2 and E4), burst (long chains, acknowledged at the end only),  *)
(* pre (content present at start-up), rand (seeded random histories over   *)
(* both sources).  A remove is always preceded by a  *)
(* settled step of the same source: unlinking a file the provider is       *)
(* reading right now can terminate heimdall (loadRuleSet dereferences the  *)
(* result of a failed os.Stat; a matter of C19, not of this check).        *)
(***************************************************************************)
EXTENDS HeimdallOps, Json, IOUtils

Env(n, d) == IF n \in DOMAIN IOEnv THEN IOEnv[n] ELSE d

OutFile == Env("VERIF_GEN_OUT", "/tmp/e2ehist.ndjson")
N       == atoi(Env("VERIF_GEN_N", "2"))
NRandom == atoi(Env("VERIF_GEN_RANDOM", "0"))
RandLen == atoi(Env("VERIF_GEN_RANDLEN", "8"))
MaxUpd  == atoi(Env("VERIF_GEN_UPD", "4"))

Both == {"s1", "s2"}
KindPairs == <<<<"fs", "fs">>, <<"fs", "http">>, <<"http", "fs">>, <<"http", "http">>>>

(* a letter: what happens, not yet numbered *)
L(s, cls, mode, settle) == [src |-> s, cls |-> cls, mode |-> mode, settle |-> settle, pre |-> FALSE]

Letters(S) ==
  {L(s, cls, m, b) : s \in S, cls \in {"valid", "empty", "invalid"}, m \in {"atomic", "inplace"}, b \in BOOLEAN}
  \cup {L(s, "remove", "atomic", b) : s \in S, b \in BOOLEAN}

(* numbering: valid contents become v1, v2, ... per source; a remove of an absent source is dropped *)
RECURSIVE Num(_, _, _, _, _)
Num(h, i, cnt, there, acc) ==
  IF i > Len(h) THEN acc
  ELSE LET x == h[i] k == cnt[x.src] + 1 IN
       IF x.cls = "remove" THEN
          IF ~there[x.src] THEN Num(h, i + 1, cnt, there, acc)
          ELSE Num(h, i + 1, cnt, [there EXCEPT ![x.src] = FALSE],
                   Append(acc, [op |-> "remove", src |-> x.src, c |-> "absent", rules |-> <<>>, mode |-> "atomic",
                                flv |-> 0, settle |-> x.settle, pre |-> FALSE]))
       ELSE Num(h, i + 1, IF x.cls = "valid" THEN [cnt EXCEPT ![x.src] = k] ELSE cnt, [there EXCEPT ![x.src] = TRUE],
                Append(acc, [op |-> "set", src |-> x.src,
                             c |-> IF x.cls = "valid" THEN VerName(k) ELSE x.cls,
                             rules |-> IF x.cls = "valid" THEN VerRules(k) ELSE <<>>,
                             mode |-> x.mode, flv |-> i, settle |-> x.settle, pre |-> x.pre]))

Numbered(h) == Num(h, 1, [s \in Both |-> 0], [s \in Both |-> FALSE], <<>>)

(* a remove follows a settled step of the same source *)
LastOn(h, i, s) == LET js == {j \in 1..(i - 1) : h[j].src = s} IN IF js = {} THEN 0 ELSE CHOOSE j \in js : \A k \in js : k <= j
Fix(h) == [i \in 1..Len(h) |->
             IF \E r \in (i + 1)..Len(h) : h[r].op = "remove" /\ LastOn(h, r, h[r].src) = i
             THEN [h[i] EXCEPT !.settle = TRUE] ELSE h[i]]

Hist(fam, kinds, cache, h) == [fam |-> fam, srcs |-> <<"s1", "s2">>, kinds |-> kinds, cache |-> cache,
                               steps |-> Fix(Numbered(h))]

(* --------------------------------------------------------------- families *)
RECURSIVE Seqs(_, _)
Seqs(n, A) == IF n = 0 THEN {<<>>} ELSE LET p == Seqs(n - 1, A) IN p \cup {Append(x, a) : x \in {y \in p : Len(y) = n - 1}, a \in A}

(* the way of writing matters for files only *)
Exhaustive ==
  LET hs == Seqs(N, Letters({"s1"})) \ {<<>>}
      fs == {Hist("exh", <<"fs", "fs">>, FALSE, h) : h \in hs}
      ht == {Hist("exh", <<"http", "http">>, FALSE, h) : h \in {x \in hs : \A i \in 1..Len(x) : x[i].mode = "atomic"}}
  IN SetToSeq({x \in fs \cup ht : x.steps # <<>>})

Chain(s, n, mode, settle) ==
  [i \in 1..n |-> L(s, "valid", IF mode = "alt" THEN (IF i % 2 = 0 THEN "inplace" ELSE "atomic") ELSE mode,
                    IF i = 1 THEN TRUE ELSE settle)]

(* both sources updated concurrently by their writers *)
Updates ==
  LET hs == {Chain("s1", n, m, b) \o Chain("s2", n, m2, ~b) :
               n \in 2..MaxUpd, m \in {"atomic", "inplace", "alt"}, m2 \in {"atomic", "alt"}, b \in BOOLEAN}
  IN SetToSeq({Hist("upd", KindPairs[k], k = 4, h) : k \in 1..4, h \in hs})

(* long chains without acknowledgements in between: many updates under request load *)
Bursts ==
  LET hs == {Chain("s1", n, m, FALSE) \o Chain("s2", n, "atomic", FALSE) : n \in {3 * MaxUpd}, m \in {"atomic", "alt"}}
  IN SetToSeq({Hist("burst", KindPairs[k], FALSE, h) : k \in 1..4, h \in hs})

Pre ==
  LET p(s) == [L(s, "valid", "atomic", FALSE) EXCEPT !.pre = TRUE]
      tails == {<<L("s1", "valid", m, b), L("s1", c, "atomic", TRUE), L("s2", c2, "atomic", FALSE)>> :
                  m \in {"atomic", "inplace"}, b \in BOOLEAN, c \in {"valid", "invalid", "remove"}, c2 \in {"valid", "empty"}}
      hs == {<<p("s1")>> \o t : t \in tails} \cup {<<p("s1"), p("s2")>> \o t : t \in tails}
  IN SetToSeq({Hist("pre", KindPairs[k], FALSE, h) : k \in 1..4, h \in hs})

(* n is a random number below 144: the letter is a function of it *)
LetterOf(n) ==
  LET r == n % 12
      s == IF (n \div 12) % 2 = 0 THEN "s1" ELSE "s2"
      m == IF (n \div 24) % 3 = 0 THEN "inplace" ELSE "atomic"
      b == (n \div 72) % 2 = 0
  IN IF r <= 6 THEN L(s, "valid", m, b)
     ELSE IF r = 7 THEN L(s, "empty", m, b)
     ELSE IF r <= 9 THEN L(s, "invalid", m, b)
     ELSE L(s, "remove", "atomic", b)

Random ==
  [i \in 1..NRandom |-> Hist("rand", KindPairs[(i % 4) + 1], i % 8 >= 4,
                             [j \in 1..RandLen |-> LetterOf(RandomElement(0..143))])]

WithIds(all) == [i \in 1..Len(all) |-> [id |-> all[i].fam \o "-" \o ToString(i)] @@ all[i]]

ASSUME
  LET all == WithIds(Exhaustive \o Updates \o Bursts \o Pre \o Random) IN
  /\ ndJsonSerialize(OutFile, all)
  /\ PrintT(<<"GENERATED", Len(Exhaustive), Len(Updates), Len(Bursts), Len(Pre), NRandom>>)
=============================================================================
