SPECIFICATION Spec
CONSTANTS MaxNodes = 4
  Mutant = "head_only"
INVARIANTS InvTotal InvNeverSuccess InvWrap InvRank InvGrpcHttpAgree
CHECK_DEADLOCK FALSE
