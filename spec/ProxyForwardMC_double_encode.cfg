SPECIFICATION Spec
CONSTANTS MaxTail = 2
  Mutant = "double_encode"
INVARIANTS InvProperty InvStripThenAdd InvNoRecoding InvPipelineWins InvForwarded
CHECK_DEADLOCK FALSE
