---------------------------- MODULE HeimdallTrace ----------------------------
(***************************************************************************)
(* Trace validation for the composition check "e2e".  The trace (NDJSON)   *)
(* is a concatenation of runs; a run is one real decision service whose    *)
(* rule providers (file_system with watch, http_endpoint with              *)
(* watch_interval) are configured in its configuration file, observed      *)
(* while writer goroutines change the sources and request goroutines send  *)
(* requests.  Lines of a run are sorted by sequence number (requests by    *)
(* the number taken after the response was read):                          *)
(*   plan   the sources with their kind                                    *)
(*   write  (src, idx, c, rules, seq): seq taken before the content        *)
(*          becomes visible                                                *)
(*   ack    (src, idx, tag, seq): everything announced up to write idx     *)
(*          has been processed by the provider; /src/keep answered tag     *)
(*   req    (src, path, start, end, tag)                                   *)
(*   fail   request without response (not judged), end                     *)
(* Every line is judged with the operators of HeimdallOps - the ones the   *)
(* design run HeimdallMC checks against the reference composition.  A      *)
(* single never-blocking action accumulates the rejections, one per (run,  *)
(* source, reason) with a counter.                                         *)
(***************************************************************************)
EXTENDS HeimdallOps, Json, IOUtils

Trace == ndJsonDeserialize(IOEnv.VERIF_TRACE)
OutFile == IOEnv.VERIF_OUT

VARIABLES l, run, kind, W, A, St, bad, nbad, nreq, nontrivial, nack, nfail, ntorn

tvars == <<l, run, kind, W, A, St, bad, nbad, nreq, nontrivial, nack, nfail, ntorn>>

Init == /\ l = 1 /\ run = "" /\ kind = [x \in {} |-> ""]
        /\ W = [x \in {} |-> <<>>] /\ A = [x \in {} |-> <<>>] /\ St = [x \in {} |-> {}]
        /\ bad = {} /\ nbad = 0 /\ nreq = 0 /\ nontrivial = 0 /\ nack = 0 /\ nfail = 0 /\ ntorn = 0

Names(e) == {e.srcs[i].name : i \in 1..Len(e.srcs)}

(* one record per (run, source, reason): the first rejected line *)
Reject(e, src, reasons, facts) ==
  LET new == {r \in reasons : ~\E b \in bad : b.run = run /\ b.src = src /\ b.reason = r} IN
  /\ bad' = bad \cup {[run |-> run, src |-> src, reason |-> r, line |-> l, id |-> e.id, facts |-> facts] : r \in new}
  /\ nbad' = nbad + Cardinality(reasons)

Known(e) == e.src \in DOMAIN W

LastWrite(src) == IF Len(W[src]) = 0 THEN [c |-> "absent", mode |-> "none"] ELSE W[src][Len(W[src])]

Facts(e, extra) == [kind |-> kind[e.src], lastc |-> LastWrite(e.src).c, lastmode |-> LastWrite(e.src).mode] @@ extra

Next ==
  /\ l <= Len(Trace)
  /\ LET e == Trace[l] IN
     CASE e.ev = "plan" ->
            /\ run' = e.run
            /\ kind' = [s \in Names(e) |-> e.srcs[CHOOSE i \in 1..Len(e.srcs) : e.srcs[i].name = s].kind]
            /\ W' = [s \in Names(e) |-> <<>>]
            /\ A' = [s \in Names(e) |-> <<Ack0>>]
            /\ St' = [s \in Names(e) |-> {}]
            /\ UNCHANGED <<bad, nbad, nreq, nontrivial, nack, nfail, ntorn>>
       [] e.ev = "write" /\ Known(e) ->
            /\ W' = [W EXCEPT ![e.src] = Append(@, [c |-> e.c, rules |-> e.rules, seq |-> e.seq, mode |-> e.mode])]
            /\ IF e.idx = Len(W[e.src]) + 1 THEN UNCHANGED <<bad, nbad>>
               ELSE Reject(e, e.src, {"e2e-trace-write-out-of-order"}, Facts(e, [tag |-> ""]))
            /\ UNCHANGED <<run, kind, A, St, nreq, nontrivial, nack, nfail, ntorn>>
       [] e.ev = "ack" /\ Known(e) ->
            LET a == [idx |-> e.idx, tag |-> e.tag, seq |-> e.seq]
                reasons == AckReasons(e.src, W[e.src], A[e.src], a)
            IN /\ A' = [A EXCEPT ![e.src] = Append(@, AckFloor(e.src, W[e.src], A[e.src], a))]
               /\ IF reasons = {} THEN UNCHANGED <<bad, nbad>> ELSE Reject(e, e.src, reasons, Facts(e, [tag |-> e.tag]))
               /\ nack' = nack + 1
               /\ UNCHANGED <<run, kind, W, St, nreq, nontrivial, nfail, ntorn>>
       [] e.ev = "req" /\ Known(e) ->
            LET q == [seg |-> e.path, start |-> e.start, end |-> e.end, tag |-> e.tag]
                reasons == ReqReasons(e.src, W[e.src], A[e.src], St[e.src], q)
                fl == FloorOf(A[e.src], q.start)
                hi == WrittenBefore(W[e.src], q.end)
                poss == Poss(W[e.src], fl, hi)
            IN /\ St' = [St EXCEPT ![e.src] = StairAfter(e.src, W[e.src], A[e.src], St[e.src], q)]
               /\ IF reasons = {} THEN UNCHANGED <<bad, nbad>> ELSE Reject(e, e.src, reasons, Facts(e, [tag |-> e.tag]))
               /\ nreq' = nreq + 1
               /\ nontrivial' = IF Cardinality(poss) > 1 THEN nontrivial + 1 ELSE nontrivial
               \* responses that only a torn read of a file rewritten in place explains
               /\ ntorn' = IF reasons = {} /\ ~\E a \in {fl.act} \cup {Eff(W[e.src][j]) : j \in (fl.idx + 1)..hi} : q.tag \in Resp(e.src, a, q.seg)
                           THEN ntorn + 1 ELSE ntorn
               /\ UNCHANGED <<run, kind, W, A, nack, nfail>>
       [] e.ev = "end" ->
            LET open == {s \in DOMAIN W : EndReasons(W[s], A[s]) # {}} IN
            /\ IF open = {} THEN UNCHANGED <<bad, nbad>>
               ELSE /\ bad' = bad \cup {[run |-> run, src |-> s, reason |-> "e2e-no-final-acknowledgement", line |-> l,
                                         id |-> e.id, facts |-> [kind |-> kind[s], lastc |-> LastWrite(s).c,
                                                                 lastmode |-> LastWrite(s).mode, tag |-> ""]] : s \in open}
                    /\ nbad' = nbad + Cardinality(open)
            /\ UNCHANGED <<run, kind, W, A, St, nreq, nontrivial, nack, nfail, ntorn>>
       [] OTHER ->   \* "fail" and lines of unknown sources: not judged
            /\ nfail' = nfail + 1
            /\ UNCHANGED <<run, kind, W, A, St, bad, nbad, nreq, nontrivial, nack, ntorn>>
  /\ l' = l + 1

TraceSpec == Init /\ [][Next]_tvars

Export == IF l = Len(Trace) + 1
          THEN TLCSet(1, bad) /\ TLCSet(2, <<nbad, nreq, nontrivial, nack, nfail, ntorn>>)
          ELSE TRUE

Done ==
  /\ TLCGet("stats").diameter - 1 = Len(Trace)
  /\ JsonSerialize(OutFile, [lines |-> Len(Trace), bad |-> SetToSeq(TLCGet(1)), rejected |-> TLCGet(2)[1],
                             requests |-> TLCGet(2)[2], nontrivial |-> TLCGet(2)[3], acks |-> TLCGet(2)[4],
                             unjudged |-> TLCGet(2)[5], torn |-> TLCGet(2)[6]])
=============================================================================
