------------------------------ MODULE RuleIndex ------------------------------
(***************************************************************************)
(* The rule repository as a sequential object (property C06; C02 and C03   *)
(* are the special case of histories that only add).  The abstract state   *)
(* is just the current version of every existing rule set; matching is     *)
(* PathMatch!Lookup on their concatenation, so "after any history,         *)
(* matching equals a fresh load of the current sets" holds by construction *)
(* in this module.  The implementation is not built that way (it keeps a   *)
(* radix tree and a flat list of known rules and patches both); binding    *)
(* the two by trace validation is the check.  RuleIndexMC additionally     *)
(* carries an implementation-shaped index (per shape the ordered list of   *)
(* owners, maintained incrementally) to state what an incremental          *)
(* implementation must preserve.                                           *)
(***************************************************************************)
EXTENDS PathMatch

(* srcs: sequence of source ids in creation order; sets: src -> Seq(Rule)  *)

RECURSIVE FlattenFrom(_, _, _)
FlattenFrom(srcs, sets, i) ==
  IF i > Len(srcs) THEN <<>> ELSE sets[srcs[i]] \o FlattenFrom(srcs, sets, i + 1)

Flatten(srcs, sets) == FlattenFrom(srcs, sets, 1)

ShapesOf(rs) == {Shape(ExprAt(rs, pr)) : pr \in RouteIdx(rs)}

AllValid(rs) == \A i \in 1..Len(rs) : \A j \in 1..Len(rs[i].routes) : ValidExpr(rs[i].routes[j].expr)

(* expressions of rs that are owned by a rule set other than src *)
OwnedByOther(srcs, sets, src, rs) ==
  \E k \in 1..Len(srcs) : srcs[k] # src /\ ShapesOf(sets[srcs[k]]) \cap ShapesOf(rs) # {}

(* two expressions of one shape with different wildcard names: whether the *)
(* load is accepted is left open                                           *)
NamesOf(e) == [i \in 1..Len(e) |-> e[i].n]
AllExprs(rs) == {ExprAt(rs, pr) : pr \in RouteIdx(rs)}
NameConflict(rs) == \E a \in AllExprs(rs), b \in AllExprs(rs) : Shape(a) = Shape(b) /\ NamesOf(a) # NamesOf(b)

MustReject(srcs, sets, src, rs) == ~AllValid(rs) \/ (AllValid(rs) /\ OwnedByOther(srcs, sets, src, rs))
MayReject(srcs, sets, src, rs) ==
  \/ MustReject(srcs, sets, src, rs)
  \/ (AllValid(rs) /\ NameConflict(rs \o (IF src \in ToSet(srcs) THEN sets[src] ELSE <<>>)))

Probe(srcs, sets, req, hasDefault) ==
  LET out == Lookup(Flatten(srcs, sets), req) IN
  {IF o = Fallthrough THEN (IF hasDefault THEN "default" ELSE "norule") ELSE o : o \in out}

Without(srcs, src) == SelectSeq(srcs, LAMBDA x : x # src)
=============================================================================
