SPECIFICATION Spec
CONSTANTS MaxLeaves = 3
  MaxEnv = 4
  MaxList = 3
  Depth = 3
  Mutant = "lower_wins"
  Family = "scalars"
INVARIANTS InvResult InvOverlay InvEnvAcc InvNaming InvTypes
CHECK_DEADLOCK FALSE
