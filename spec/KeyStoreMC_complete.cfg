SPECIFICATION Spec
CONSTANTS
  Mutant = "none"
  MaxKeys = 2
  MaxCerts = 2
  WideCerts = 1
  MultiKeyCerts = 1
CHECK_DEADLOCK FALSE
INVARIANTS
  CtrComplete
