-------------------------- MODULE ConfigMergeTrace --------------------------
(***************************************************************************)
(* Trace validation for C20.  Every line of the trace is one fully logged  *)
(* case executed on the real loader (config.NewConfiguration):             *)
(*                                                                         *)
(*  ev = "merge"   a configuration tree given by its leaves (real paths),  *)
(*     each with its source (F file, E environment, B both with different  *)
(*     values, N neither), the canonical forms of its two values, what a   *)
(*     load without file and environment shows for it (dflt), the order in *)
(*     which the environment variables were set, their names, and the      *)
(*     observation: per leaf the canonical value found in the resulting    *)
(*     Configuration, or the load error.                                   *)
(*     Required: obs = Defaults + File + Environment leaf by leaf          *)
(*     (ConfigMerge!ExpectedView), and the variable names are EnvKey.      *)
(*                                                                         *)
(*  ev = "usable"  an item of the usability universe loaded entirely from  *)
(*     a file and entirely from the environment.                           *)
(*     Required: ConfigMerge!UsabilityFindings = {}.                       *)
(*                                                                         *)
(* The single action consumes one line and never blocks; all failing       *)
(* cases are known after one pass.  Each failing leaf / item is tagged     *)
(* with the trigger class of the input it belongs to (computed from the    *)
(* inputs only), which is what known findings are matched on.              *)
(***************************************************************************)
EXTENDS ConfigMerge, Json, IOUtils, TLC, SequencesExt, FiniteSetsExt

Trace == ndJsonDeserialize(IOEnv.VERIF_TRACE)
OutFile == IOEnv.VERIF_OUT

VARIABLES l, bad, infra, nontrivial

vars == <<l, bad, infra, nontrivial>>

AbsentV == "<absent>"

(* ------------------------------- merge cases ---------------------------- *)

NL(c) == Len(c.leaves)
PathOf(c, i) == c.leaves[i].path
FIdx(c) == FileIdx(c.leaves)
EIdx(c) == EnvIdx(c.leaves)

InFile(c, prefix) == \E j \in FIdx(c) : PathPrefix(prefix, PathOf(c, j))

(* number of consecutive key segments following position k *)
RECURSIVE KeyRun(_, _)
KeyRun(p, k) == IF k + 1 > Len(p) \/ IsNum(p[k + 1]) THEN 0 ELSE 1 + KeyRun(p, k + 1)

IdxPositions(p) == {k \in 1..Len(p) : IsNum(p[k])}

(* trigger: another environment variable addresses the same (outermost) list *)
SharesList(c, i) ==
  LET p == PathOf(c, i) IN
  IdxPositions(p) # {} /\
  LET k == CHOOSE x \in IdxPositions(p) : \A y \in IdxPositions(p) : x <= y IN
  \E j \in EIdx(c) \ {i} :
     LET q == PathOf(c, j) IN Len(q) >= k /\ IsNum(q[k]) /\ SubSeq(q, 1, k - 1) = SubSeq(p, 1, k - 1)

(* trigger: the variable names a key two or more levels below a list element that the file does   *)
(* not define, or that another variable addresses as well (the fragments of the variables are      *)
(* merged with each other before the file is looked at: the one that arrives first for an element  *)
(* keeps its literal dotted key)                                                                   *)
NestedInNewElement(c, i) ==
  LET p == PathOf(c, i) IN
  \E k \in IdxPositions(p) :
     /\ KeyRun(p, k) >= 2
     /\ \/ ~InFile(c, SubSeq(p, 1, k))
        \/ \E j \in EIdx(c) \ {i} : PathPrefix(SubSeq(p, 1, k), PathOf(c, j))

(* trigger: the file alone lacks a property the schema requires *)
ReqMissing(c) == \E r \in 1..Len(c.reqs) : InFile(c, c.reqs[r].scope) /\ ~InFile(c, c.reqs[r].need)

(* what the specification admits for leaf i *)
Dv(c) == [i \in 1..NL(c) |-> IF c.leaves[i].dflt = AbsentV THEN "" ELSE c.leaves[i].dflt]
Fv(c) == [i \in 1..NL(c) |-> c.leaves[i].canon[c.leaves[i].fv]]
Ev(c) == [i \in 1..NL(c) |-> c.leaves[i].canon[c.leaves[i].ev]]

Admitted(c, i) ==
  LET exp == ExpectedView(c.leaves, Dv(c), Fv(c), Ev(c))
      p == PathOf(c, i)
  IN IF p \in DOMAIN exp THEN {exp[p]}
     ELSE {AbsentV, c.leaves[i].zero, "<nil>"}     \* nobody defines it and it has no default: left open

Tag(c, i) ==
  IF i \in EIdx(c) /\ NestedInNewElement(c, i) THEN "env-nested-key-in-new-element"
  ELSE IF i \in EIdx(c) /\ SharesList(c, i) THEN "env-vars-share-list"
  ELSE "leaf-differs"

Wrong(c) == {i \in 1..NL(c) : c.obs.vals[i] \notin Admitted(c, i)}

MergeReasons(c) ==
  IF c.obs.kind = "ok" THEN {Tag(c, i) : i \in Wrong(c)}
  ELSE IF c.obs.kind = "panic" THEN {"loader-panicked"}
  ELSE IF ~c.obs.schema /\ ReqMissing(c) THEN {"file-alone-fails-schema-required"}
  ELSE IF c.obs.schema /\ \E i \in EIdx(c) : NestedInNewElement(c, i) THEN {"env-nested-key-in-new-element"}
  ELSE IF c.obs.schema /\ \E i \in EIdx(c) : SharesList(c, i) THEN {"env-vars-share-list"}
  ELSE {"load-rejected"}

MergeDetail(c) ==
  IF c.obs.kind = "ok"
  THEN LET w == SetToSeq(Wrong(c)) IN
       [k \in 1..Len(w) |-> [leaf |-> w[k], tag |-> Tag(c, w[k]), got |-> c.obs.vals[w[k]],
                             admitted |-> SetToSeq(Admitted(c, w[k]))]]
  ELSE <<>>

(* the driver must have used the variable names the naming rules prescribe, in a permutation of   *)
(* the environment leaves; and a file part must be expressible                                    *)
MergeBindingOK(c) ==
  /\ \A i \in 1..NL(c) : WellFormedPath(PathOf(c, i))
  /\ \A i \in 1..NL(c) : c.leaves[i].var = (IF i \in EIdx(c) THEN EnvKey(c.prefix, PathOf(c, i)) ELSE "-")
  /\ {c.order[k] : k \in 1..Len(c.order)} = EIdx(c) /\ Len(c.order) = Cardinality(EIdx(c))
  /\ Representable(c.leaves)
  /\ DenseLists({PathOf(c, i) : i \in {j \in 1..NL(c) : c.leaves[j].src # "N"}})
  /\ PrefixFree({PathOf(c, i) : i \in 1..NL(c)})
  /\ \A i \in 1..NL(c) : c.leaves[i].canon[1] # c.leaves[i].canon[2]
  /\ c.obs.kind = "ok" => Len(c.obs.vals) = NL(c)

MergeNonTrivial(c) == (FIdx(c) # {} /\ EIdx(c) # {}) \/ \E i \in 1..NL(c) : c.leaves[i].src = "B"

(* ------------------------------ usability cases ------------------------- *)

PathsShareList(ps) ==
  \E i \in 1..Len(ps), j \in 1..Len(ps) :
     i # j /\ \E k \in 1..Len(ps[i]) :
        /\ IsNum(ps[i][k]) /\ \A m \in 1..(k - 1) : ~IsNum(ps[i][m])
        /\ Len(ps[j]) >= k /\ IsNum(ps[j][k]) /\ SubSeq(ps[j], 1, k - 1) = SubSeq(ps[i], 1, k - 1)

PathsNested(ps) == \E i \in 1..Len(ps) : \E k \in IdxPositions(ps[i]) : KeyRun(ps[i], k) >= 2

UsableReasons(c) ==
  IF c.form = "flow" THEN UsabilityFindings(c.obs)
  ELSE \* per-leaf form: the file side is the same as in the flow form; only the comparison is judged
       IF UsableFromFile(c.obs) = UsableFromEnv(c.obs) THEN {}
       ELSE IF UsableFromFile(c.obs) /\ PathsNested(c.vars) THEN {"env-nested-key-in-new-element"}
       ELSE IF UsableFromFile(c.obs) /\ PathsShareList(c.vars) THEN {"env-vars-share-list"}
       ELSE {"file-env-usability-differs"}

UsableNonTrivial(c) == c.source # "both" \/ ~UsableFromFile(c.obs) \/ ~UsableFromEnv(c.obs)

(* --------------------------------- judge -------------------------------- *)

Init == l = 1 /\ bad = {} /\ infra = {} /\ nontrivial = 0

Next ==
  /\ l <= Len(Trace)
  /\ LET c == Trace[l] IN
     IF c.ev = "merge" THEN
        LET r == MergeReasons(c) IN
        /\ infra' = IF MergeBindingOK(c) THEN infra ELSE infra \cup {[line |-> l, id |-> c.id]}
        /\ bad' = IF r = {} THEN bad
                  ELSE bad \cup {[line |-> l, id |-> c.id, ev |-> c.ev, reasons |-> SetToSeq(r),
                                  detail |-> MergeDetail(c)]}
        /\ nontrivial' = IF MergeNonTrivial(c) THEN nontrivial + 1 ELSE nontrivial
     ELSE
        LET r == UsableReasons(c) IN
        /\ infra' = infra
        /\ bad' = IF r = {} THEN bad
                  ELSE bad \cup {[line |-> l, id |-> c.id, ev |-> c.ev, reasons |-> SetToSeq(r), detail |-> <<>>]}
        /\ nontrivial' = IF UsableNonTrivial(c) THEN nontrivial + 1 ELSE nontrivial
  /\ l' = l + 1

Spec == Init /\ [][Next]_vars

Done ==
  /\ TLCGet("stats").diameter - 1 = Len(Trace)
  /\ JsonSerialize(OutFile, [lines |-> Len(Trace), nontrivial |-> TLCGet(3),
                             bad |-> SetToSeq(TLCGet(1)), infra |-> SetToSeq(TLCGet(2))])

Export == IF l = Len(Trace) + 1
          THEN TLCSet(1, bad) /\ TLCSet(2, infra) /\ TLCSet(3, nontrivial)
          ELSE TRUE
=============================================================================
