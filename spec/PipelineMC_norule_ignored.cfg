SPECIFICATION Spec
CONSTANT Mutant = "norule_ignored"
INVARIANTS InvSafety InvUpstream InvNoSwallow InvTypes InvNegativeStatus
CHECK_DEADLOCK FALSE
