SPECIFICATION Spec
CONSTANT Mutant = "append_changed"
INVARIANTS OwnershipUnique IndexOrder LookupWellDefined NoEmptyWildcard
CHECK_DEADLOCK FALSE
