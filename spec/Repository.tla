------------------------------ MODULE Repository ------------------------------
(***************************************************************************)
(* The rule repository under concurrency (property C07).  One action per   *)
(* critical-section step of internal/rules/repository_impl.go:             *)
(*                                                                         *)
(*   writer (Add/Update/DeleteRuleSet):                                    *)
(*     KLock    knownRulesMutex.Lock()                                     *)
(*     Clone    tmp := r.index.Clone()      (reads r.index under the       *)
(*                                           writer lock only - fine,      *)
(*                                           only writers assign it)       *)
(*     Mutate   addRulesTo / removeRulesFrom on tmp, in several steps;     *)
(*              may Fail (constraint violation): nothing is published      *)
(*     TLock    rulesTreeMutex.Lock()                                      *)
(*     Swap     r.index = tmp                                              *)
(*     TUnlock, KUnlock                                                    *)
(*   reader (FindRule): RLock, Search (the whole tree walk), RUnlock       *)
(*                                                                         *)
(* Every action is split into a guard and an effect so that the trace      *)
(* specification can apply the same effect to recorded events and report   *)
(* a guard that does not hold as a violation.  The abstract content of a   *)
(* tree is a function source -> version (0 = absent): all that matters     *)
(* for atomicity and lost updates.                                         *)
(***************************************************************************)
EXTENDS Naturals, Sequences, FiniteSets

None == 0       \* process ids are positive integers

(* st: [kmu, tmu, readers, cur, published, content, tmp, snap] *)
InitState(tree0, srcs) ==
  [kmu |-> None, tmu |-> None, readers |-> {}, cur |-> tree0, published |-> {tree0},
   content |-> [t \in {tree0} |-> [s \in srcs |-> 0]],
   tmp |-> [p \in {} |-> None], snap |-> [p \in {} |-> None]]

Put(f, k, v) == [x \in DOMAIN f \cup {k} |-> IF x = k THEN v ELSE f[x]]

GKLock(st, p) == st.kmu = None
EKLock(st, p) == [st EXCEPT !.kmu = p]

GClone(st, p, from, to) == st.kmu = p /\ from = st.cur /\ to \notin st.published /\ to \notin DOMAIN st.content
EClone(st, p, from, to) ==
  [st EXCEPT !.tmp = Put(st.tmp, p, to),
             !.content = Put(st.content, to, IF from \in DOMAIN st.content THEN st.content[from] ELSE st.content[st.cur])]

(* one step of the modification of the private copy *)
GMutate(st, p, tree) == st.kmu = p /\ p \in DOMAIN st.tmp /\ tree = st.tmp[p] /\ tree \notin st.published
EMutate(st, p, tree, src, ver) ==
  IF tree \in DOMAIN st.content THEN [st EXCEPT !.content[tree][src] = ver] ELSE st

GTLock(st, p) == st.kmu = p /\ st.tmu = None /\ st.readers = {}
ETLock(st, p) == [st EXCEPT !.tmu = p]

GSwap(st, p, tree) == st.tmu = p /\ st.kmu = p /\ p \in DOMAIN st.tmp /\ tree = st.tmp[p]
ESwap(st, p, tree) == [st EXCEPT !.cur = tree, !.published = st.published \cup {tree}]

GTUnlock(st, p) == st.tmu = p
ETUnlock(st, p) == [st EXCEPT !.tmu = None]

GKUnlock(st, p) == st.kmu = p /\ st.tmu # p
EKUnlock(st, p) == [st EXCEPT !.kmu = None]

GRLock(st, p) == st.tmu = None
ERLock(st, p) == [st EXCEPT !.readers = st.readers \cup {p}]

GSearch(st, p, tree) == p \in st.readers /\ tree = st.cur
ESearch(st, p, tree) ==
  [st EXCEPT !.snap = Put(st.snap, p, IF tree \in DOMAIN st.content THEN st.content[tree] ELSE st.content[st.cur])]

GRUnlock(st, p) == p \in st.readers
ERUnlock(st, p) == [st EXCEPT !.readers = st.readers \ {p}]

(* -------------------------------- invariants --------------------------- *)
LockDiscipline(st) ==
  /\ (st.tmu # None => st.readers = {})          \* writer excludes readers
  /\ (st.tmu # None => st.kmu = st.tmu)           \* the tree lock is only taken inside the writer lock
=============================================================================
