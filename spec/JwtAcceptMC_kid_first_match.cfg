SPECIFICATION Spec
CONSTANTS Mutant = "kid_first_match"
  Full = FALSE
INVARIANTS InvTypes InvSignature InvUnsigned InvAlgKey InvAlgAllowed InvIssuer InvAudience InvScopes InvValidity InvKidUnique InvMerge InvRefines InvVerdict
CHECK_DEADLOCK FALSE
