SPECIFICATION Spec
CONSTANT Mutant = "kid_first_match"
INVARIANTS InvTypes InvSignature InvUnsigned InvAlgKey InvAlgAllowed InvIssuer InvAudience InvScopes InvValidity InvKidUnique InvMerge InvRefines InvVerdict
CHECK_DEADLOCK FALSE
