SPECIFICATION Spec
CONSTANTS MaxTail = 2
  Mutant = "first_only_removed"
INVARIANTS InvProperty InvStripThenAdd InvNoRecoding InvPipelineWins InvForwarded
CHECK_DEADLOCK FALSE
