SPECIFICATION Spec
CONSTANT Mutant = "cond_error_skips"
INVARIANTS InvSafety InvUpstream InvNoSwallow InvTypes InvNegativeStatus
CHECK_DEADLOCK FALSE
