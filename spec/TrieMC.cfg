SPECIFICATION Spec
CONSTANTS MaxSet = 1
  Mutant = "none"
INVARIANTS Refines EmptyWhenEmpty
CHECK_DEADLOCK FALSE
