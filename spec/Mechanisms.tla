----------------------------- MODULE Mechanisms -----------------------------
(***************************************************************************)
(* The mechanism catalogue of heimdall with prototypes, rule-level         *)
(* variants and concurrent executions (property C17).                      *)
(*                                                                         *)
(* Code modelled: internal/rules/mechanisms/mechanism_factory.go           *)
(* Create<Kind>(version, id, conf): the catalogue prototype is returned    *)
(* when conf is nil (or empty: WithConfig returns the receiver), otherwise *)
(* prototype.WithConfig(conf) builds a new object from the prototype's     *)
(* fields overlaid by the override.  Execute is called on shared objects   *)
(* by any number of request goroutines.                                    *)
(*                                                                         *)
(* Memory is explicit: an object points to the heap cell holding its       *)
(* configuration (maps and slices are references in Go), so that sharing   *)
(* and in-place mutation can be expressed.  The fingerprint of an object   *)
(* is everything reachable from it.                                        *)
(***************************************************************************)
EXTENDS MechanismsOps, TLC

CONSTANTS Ids,        \* catalogue ids
          Rules,      \* rules that may create a variant of each id
          Catalogue,  \* Id -> configuration (option -> value)
          Overrides,  \* set of overrides (partial configurations; << >> is the empty one)
          Procs,      \* request goroutines
          MaxExec,    \* executions per goroutine
          Mutant

VARIABLES heap,   \* address -> configuration
          objs,   \* object name -> [id, ovr, addr, init]
          snap,   \* ghost: object name -> fingerprint when it was created
          last,   \* ghost: id -> the object created last from that id
          ex      \* goroutine -> [pc, obj, n]

vars == <<heap, objs, snap, last, ex>>

Proto(id) == <<"proto", id>>
Var(r, id) == <<"var", r, id>>

Empty == [x \in {} |-> 0]

Fingerprint(o) == [conf |-> heap[objs[o].addr], init |-> objs[o].init]

(* what an object does is determined by the configuration it points to     *)
Behaviour(o) == heap[objs[o].addr]

NextAddr == Cardinality(DOMAIN heap) + 1

Init ==
  /\ \E f \in [Ids -> 1..Cardinality(Ids)] :
       /\ \A i, j \in Ids : i # j => f[i] # f[j]
       /\ heap = [a \in 1..Cardinality(Ids) |-> Catalogue[CHOOSE id \in Ids : f[id] = a]]
       /\ objs = [o \in {Proto(id) : id \in Ids} |-> [id |-> o[2], ovr |-> Empty, addr |-> f[o[2]], init |-> FALSE]]
  /\ snap = [o \in DOMAIN objs |-> [conf |-> Catalogue[o[2]], init |-> FALSE]]
  /\ last = [id \in Ids |-> Proto(id)]
  /\ ex = [p \in Procs |-> [pc |-> "idle", obj |-> Proto(CHOOSE id \in Ids : TRUE), n |-> 0]]

(* ------------------------------ CreateVariant -------------------------- *)

CreateVariant(r, id, o) ==
  LET name == Var(r, id)
      p == objs[Proto(id)]
  IN
  /\ name \notin DOMAIN objs
  /\ IF o = Empty
     THEN \* WithConfig with an empty override returns the prototype itself
          /\ objs' = objs @@ (name :> p)
          /\ heap' = heap
     ELSE CASE Mutant = "shared_map" ->
                 \* WithConfig writes the override into the map it shares with the prototype
                 /\ heap' = [heap EXCEPT ![p.addr] = Overlay(heap[p.addr], o)]
                 /\ objs' = objs @@ (name :> [id |-> id, ovr |-> o, addr |-> p.addr, init |-> FALSE])
            [] Mutant = "inherit_variant" ->
                 \* the new variant is derived from the variant created last, not from the catalogue
                 /\ heap' = heap @@ (NextAddr :> Overlay(heap[objs[last[id]].addr], o))
                 /\ objs' = objs @@ (name :> [id |-> id, ovr |-> o, addr |-> NextAddr, init |-> FALSE])
            [] OTHER ->
                 /\ heap' = heap @@ (NextAddr :> Overlay(heap[p.addr], o))
                 /\ objs' = objs @@ (name :> [id |-> id, ovr |-> o, addr |-> NextAddr, init |-> FALSE])
  /\ snap' = snap @@ (name :> [conf |-> heap'[objs'[name].addr], init |-> objs'[name].init])
  /\ last' = [last EXCEPT ![id] = name]
  /\ UNCHANGED ex

(* -------------------------------- Execute ------------------------------ *)

ExecBegin(p, o) ==
  /\ ex[p].pc = "idle" /\ ex[p].n < MaxExec
  /\ o \in DOMAIN objs
  /\ ex' = [ex EXCEPT ![p] = [pc |-> IF Mutant = "lazy_init" /\ ~objs[o].init THEN "write" ELSE "read",
                              obj |-> o, n |-> ex[p].n + 1]]
  /\ UNCHANGED <<heap, objs, snap, last>>

(* lazy initialisation on first use: Execute writes to the shared object   *)
ExecWrite(p) ==
  /\ ex[p].pc = "write"
  /\ objs' = [o \in DOMAIN objs |->
                IF o = ex[p].obj
                THEN [objs[o] EXCEPT !.init = TRUE] ELSE objs[o]]
  /\ ex' = [ex EXCEPT ![p].pc = "read"]
  /\ UNCHANGED <<heap, snap, last>>

ExecEnd(p) ==
  /\ ex[p].pc = "read"
  /\ ex' = [ex EXCEPT ![p].pc = "idle"]
  /\ UNCHANGED <<heap, objs, snap, last>>

Next ==
  \/ \E r \in Rules, id \in Ids, o \in Overrides : CreateVariant(r, id, o)
  \/ \E p \in Procs : (\E o \in DOMAIN objs : ExecBegin(p, o)) \/ ExecWrite(p) \/ ExecEnd(p)

Spec == Init /\ [][Next]_vars

(* ------------------------------ properties ----------------------------- *)

(* no existing object's fingerprint changes on any action                  *)
Fingerprints == [o \in DOMAIN objs |-> Fingerprint(o)]

Frozen == FrozenBetween(snap, Fingerprints)

FrozenStep == [][FrozenBetween(Fingerprints, Fingerprints')]_vars

(* every object behaves as the catalogue configuration overlaid by its own *)
(* override only - whatever else was created or executed                   *)
Identity(c) == c   \* in the model the behaviour of a configuration is the configuration itself

Local == \A o \in DOMAIN objs : LocalFor(Behaviour(o), Identity, Catalogue[objs[o].id], objs[o].ovr)

(* no execution writes an object another execution is using (what the race *)
(* detector observes on the real code)                                     *)
NoRace == \A p, q \in Procs :
            (p # q /\ ex[p].pc = "write" /\ ex[q].pc \in {"read", "write"}) => ex[p].obj # ex[q].obj

TypeOK ==
  /\ \A o \in DOMAIN objs : objs[o].addr \in DOMAIN heap
  /\ \A p \in Procs : ex[p].pc \in {"idle", "read", "write"} /\ ex[p].n \in 0..MaxExec
=============================================================================
