SPECIFICATION Spec
CONSTANT Impl <- ImplCached
INVARIANT ViewStable
CHECK_DEADLOCK FALSE
