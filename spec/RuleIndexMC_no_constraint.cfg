SPECIFICATION Spec
CONSTANT Mutant = "no_constraint"
INVARIANTS OwnershipUnique IndexOrder LookupWellDefined NoEmptyWildcard
CHECK_DEADLOCK FALSE
