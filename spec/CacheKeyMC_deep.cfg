SPECIFICATION Spec
CONSTANTS KeyFn = "ideal"
  MaxEvals = 4
INVARIANTS InvNoCrossReuse InvReuseWhenEqual
CHECK_DEADLOCK FALSE
