----------------------------- MODULE KeyStoreGen -----------------------------
(***************************************************************************)
(* Generates key-store files for the binding of KeyStore.tla to            *)
(* internal/keystore (NDJSON): 3 keys, 3 names, up to 3 key blocks and 5   *)
(* certificates.  Half of the certificates are drawn freely from the       *)
(* alphabet, the others are made to fit the certificate before them (its   *)
(* issuer by name and / or key identifier, signed or not by the right key, *)
(* possibly the same certificate again), so that chains, cycles, look-     *)
(* alikes and duplicates are frequent.                                     *)
(***************************************************************************)
EXTENDS KeyStore, Json, IOUtils, TLC, SequencesExt

Env(n, d) == IF n \in DOMAIN IOEnv THEN IOEnv[n] ELSE d
OutFile == Env("VERIF_GEN_OUT", "/tmp/keystores.ndjson")
N == atoi(Env("VERIF_GEN_N", "200"))

Keys == {"k1", "k2", "k3"}
Names == {"A", "B", "C"}
Ski(k) == "ski:" \o k
Pick(S) == RandomElement(S)
Coin(n) == RandomElement(1..n) = 1

Fix(c) == IF c.ca /\ c.ski = "" THEN [c EXCEPT !.ski = Ski(c.key)] ELSE c

Free(dummy) ==      \* (a definition without parameters would be evaluated once)
  LET k == Pick(Keys) IN
  Fix([key |-> k, subj |-> Pick(Names), iss |-> Pick(Names), ski |-> Pick({"", Ski(k)}),
       aki |-> Pick({""} \cup {Ski(x) : x \in Keys}), signer |-> Pick(Keys), ca |-> Pick(BOOLEAN),
       live |-> ~Coin(6)])

(* a certificate meant to be the issuer of c *)
IssuerOf(c) ==
  LET k == IF Coin(5) THEN Pick(Keys) ELSE c.signer IN
  Fix([key |-> k, subj |-> IF Coin(6) THEN Pick(Names) ELSE c.iss, iss |-> Pick(Names),
       ski |-> IF Coin(4) THEN "" ELSE Ski(k),
       aki |-> IF Coin(2) THEN "" ELSE Pick({Ski(x) : x \in Keys}),
       signer |-> Pick(Keys), ca |-> ~Coin(6), live |-> ~Coin(8)])

RECURSIVE Pool(_, _)
Pool(n, acc) ==
  IF n = 0 THEN acc
  ELSE IF acc = <<>> \/ Coin(3) THEN Pool(n - 1, Append(acc, Free(n)))
  ELSE IF Coin(8) THEN Pool(n - 1, Append(acc, acc[Pick(1..Len(acc))]))          \* the same certificate again
  ELSE Pool(n - 1, Append(acc, IssuerOf(acc[Len(acc)])))

KeysSeq(dummy) == [i \in 1..Pick(1..3) |-> KeyBlock(Pick(Keys), Pick({"", "", "x", "y"}))]

Shuffle(s) == IF Coin(2) THEN s ELSE Reverse(s)

Case(i) ==
  LET ks == IF Coin(25) THEN <<>> ELSE KeysSeq(i)
      pool == Shuffle(Pool(Pick(0..5), <<>>))
      certs == [j \in 1..Len(pool) |-> CertBlock(pool[j])]
      junk == IF Coin(30) THEN <<OtherBlock>> ELSE <<>>
      blocks == CASE i % 3 = 0 -> ks \o certs \o junk
                  [] i % 3 = 1 -> certs \o junk \o ks
                  [] OTHER -> (IF Len(ks) > 0 THEN <<ks[1]>> ELSE <<>>) \o certs
                              \o (IF Len(ks) > 1 THEN SubSeq(ks, 2, Len(ks)) ELSE <<>>) \o junk
  IN [id |-> "ks-" \o ToString(i), blocks |-> blocks]

ASSUME
  /\ ndJsonSerialize(OutFile, [i \in 1..N |-> Case(i)])
  /\ PrintT(<<"GENERATED", N>>)
=============================================================================
