SPECIFICATION Spec
CONSTANTS MaxLeaves = 3
  MaxEnv = 4
  MaxList = 3
  Depth = 3
  Mutant = "replace_list_elements"
  Family = "list-of-struct-nested"
INVARIANTS InvResult InvOverlay InvEnvAcc InvNaming InvTypes
CHECK_DEADLOCK FALSE
