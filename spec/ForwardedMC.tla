----------------------------- MODULE ForwardedMC -----------------------------
(***************************************************************************)
(* Design run for Forwarded: the composition accept -> strip -> extract -> *)
(* match -> forward as a small state machine, for every trusted_proxies    *)
(* list of up to MaxList entries over all entries of width W, every peer,  *)
(* every way of sending the seven headers (absent / one line / two lines), *)
(* both modes.  The trust decision is computed the way an implementation   *)
(* does it (fold over the entries, building matchers, skipping what does   *)
(* not parse) and compared with the declarative Listed; afterwards list    *)
(* and peer are forgotten (lazy choice), so the header part is not         *)
(* multiplied by the address part.  Mutant selects deliberately wrong      *)
(* variants (negative controls).                                           *)
(***************************************************************************)
EXTENDS Forwarded, TLC

CONSTANTS W, MaxList, Mutant

VARIABLES pc, list, peer, want, trusted, mode, h, f, req, view, ips, rule, vis, up

vars == <<pc, list, peer, want, trusted, mode, h, f, req, view, ips, rule, vis, up>>

Bits(n) == [1..n -> {0, 1}]
AllBits == Bits(W)
Prefixes == UNION {Bits(n) : n \in 0..W}

Entries ==
  {[k |-> "ip", fam |-> fm, bits |-> b, pre |-> <<>>] : fm \in {"4", "6"}, b \in AllBits}
  \cup {[k |-> "cidr", fam |-> fm, bits |-> <<>>, pre |-> p] : fm \in {"4", "6"}, p \in Prefixes}
  \cup {[k |-> "bad", fam |-> "-", bits |-> <<>>, pre |-> <<>>],
        [k |-> "badcidr", fam |-> "-", bits |-> <<>>, pre |-> <<>>]}

Lists == {[set |-> FALSE, entries |-> <<>>]}
         \cup {[set |-> TRUE, entries |-> es] : es \in UNION {[1..n -> Entries] : n \in 0..MaxList}}

Peers == {[fam |-> fm, bits |-> b] : fm \in {"4", "6", "6z"}, b \in AllBits}

Forgotten == [set |-> FALSE, entries |-> <<>>]
NoPeer == [fam |-> "-", bits |-> <<>>]

(* --- implementation-shaped trust decision ------------------------------ *)
(* holders: what New() builds from the configured strings; the peer        *)
(* address is parsed as well ("6z" does not parse: nil).                   *)
Holder(e) ==
  CASE e.k = "cidr"    -> <<[t |-> "net", fam |-> e.fam, pre |-> e.pre]>>
    [] e.k = "badcidr" -> <<>>                                   \* warning, skipped
    [] e.k = "ip"      -> <<[t |-> "ip", fam |-> e.fam, bits |-> e.bits]>>
    [] e.k = "bad"     -> IF Mutant = "bad_is_nil_ip" THEN <<[t |-> "nil"]>> ELSE <<>>

RECURSIVE Holders(_)
Holders(es) == IF es = <<>> THEN <<>> ELSE Holder(Head(es)) \o Holders(Tail(es))

ParsedPeer(p) == IF p.fam = "6z" THEN [t |-> "nil"] ELSE [t |-> "ip", fam |-> p.fam, bits |-> p.bits]

HolderContains(hd, ip) ==
  CASE hd.t = "nil" -> ip.t = "nil"
    [] hd.t = "ip"  -> ip.t = "ip" /\ hd.fam = ip.fam /\ hd.bits = ip.bits
    [] hd.t = "net" -> ip.t = "ip" /\ (Mutant = "cidr_any_family" \/ hd.fam = ip.fam) /\ StartsWith(hd.pre, ip.bits)

MTrust(p, l) ==
  IF ~l.set THEN Mutant = "unset_trusts_all"
  ELSE LET hs == Holders(l.entries)
           n  == IF Mutant = "first_entry_only" THEN (IF Len(hs) > 0 THEN 1 ELSE 0) ELSE Len(hs)
       IN \E i \in 1..n : HolderContains(hs[i], ParsedPeer(p))

(* --- the steps ---------------------------------------------------------- *)

Init ==
  /\ pc = "accept"
  /\ list \in Lists /\ peer \in Peers
  /\ want = "-" /\ trusted = FALSE
  /\ mode = "-" /\ h = NoHeaders /\ f = [uriq |-> FALSE, actq |-> FALSE]
  /\ req = NoHeaders /\ view = ActualView /\ ips = <<>> /\ rule = NoRule /\ vis = {} /\ up = [n \in Names |-> {}]

Accept ==
  /\ pc = "accept"
  /\ want' = Trust(peer, list)
  /\ trusted' = MTrust(peer, list)
  /\ list' = Forgotten /\ peer' = NoPeer
  /\ pc' = "receive"
  /\ UNCHANGED <<mode, h, f, req, view, ips, rule, vis, up>>

Receive ==
  /\ pc = "receive"
  /\ mode' \in {"decision", "proxy"}
  /\ h' \in [Names -> 0..2]
  /\ f' \in [uriq : BOOLEAN, actq : BOOLEAN]
  /\ req' = h'
  /\ pc' = IF Mutant = "extract_before_strip" THEN "extract" ELSE "strip"
  /\ UNCHANGED <<list, peer, want, trusted, view, ips, rule, vis, up>>

MStrip(tr, hh) ==
  CASE Mutant = "strip_misses_uri"  -> [n \in Names |-> IF tr \/ n = "uri" THEN hh[n] ELSE 0]
    [] Mutant = "strip_misses_path" -> [n \in Names |-> IF tr \/ n = "path" THEN hh[n] ELSE 0]
    [] Mutant = "strip_first_line"  -> [n \in Names |-> IF tr THEN hh[n] ELSE IF hh[n] = 2 THEN 1 ELSE 0]
    [] OTHER -> Strip(tr, hh)

StripStep ==
  /\ pc = "strip"
  /\ req' = MStrip(trusted, req)
  /\ pc' = IF Mutant = "extract_before_strip" THEN "match" ELSE "extract"
  /\ UNCHANGED <<list, peer, want, trusted, mode, h, f, view, ips, rule, vis, up>>

(* the extraction as implemented: first line of a header wins; a missing   *)
(* query in X-Forwarded-Uri falls back to the actual one; Forwarded wins   *)
(* over X-Forwarded-For; the peer closes the list                          *)
ImplView(r, ff) ==
  [c \in Comps |->
     IF c = "query"
     THEN IF r["uri"] > 0 /\ ff.uriq THEN "f1" ELSE IF ff.actq THEN "act" ELSE "none"
     ELSE IF r[HeaderOf(c)] > 0 THEN "f1" ELSE "act"]

ImplIPs(r) ==
  (IF r["forwarded"] > 0 THEN <<"F1", "F2">> ELSE IF r["for"] > 0 THEN <<"X1", "X2">> ELSE <<>>) \o <<"peer">>

ExtractStep ==
  /\ pc = "extract"
  /\ view' = ImplView(req, f)
  /\ ips' = ImplIPs(req)
  /\ vis' = {n \in Names : req[n] > 0}
  /\ pc' = IF Mutant = "extract_before_strip" THEN "strip" ELSE "match"
  /\ UNCHANGED <<list, peer, want, trusted, mode, h, f, req, rule, up>>

MatchStep ==
  /\ pc = "match"
  /\ rule' = RuleFor(view)
  /\ pc' = IF mode = "proxy" THEN "forward" ELSE "done"
  /\ UNCHANGED <<list, peer, want, trusted, mode, h, f, req, view, ips, vis, up>>

ForwardStep ==
  /\ pc = "forward"
  /\ up' = Recreate(req)
  /\ pc' = "done"
  /\ UNCHANGED <<list, peer, want, trusted, mode, h, f, req, view, ips, rule, vis>>

Next == Accept \/ Receive \/ StripStep \/ ExtractStep \/ MatchStep \/ ForwardStep

Spec == Init /\ [][Next]_vars

(* --- invariants --------------------------------------------------------- *)

(* the trust decision is exactly "listed" (zone-qualified listed peers are  *)
(* left open)                                                               *)
InvTrust == pc # "accept" => (want = "yes" => trusted) /\ (want = "no" => ~trusted)

Obs == [rule |-> rule, view |-> view, ips |-> ips,
        visible |-> IF vis = {} THEN <<>> ELSE <<"some">>,
        leak |-> IF \E n \in Names : "client" \in up[n] THEN <<"some">> ELSE <<>>]

CaseOf(t) == [peer |-> [fam |-> "4", bits |-> <<>>],
              list |-> [set |-> t = "yes", entries |-> IF t = "yes" THEN <<[k |-> "cidr", fam |-> "4", bits |-> <<>>, pre |-> <<>>]>> ELSE <<>>],
              h |-> h, uriq |-> f.uriq, actq |-> f.actq, mode |-> mode]

(* the property itself, in the form the trace specification uses *)
InvProperty == pc = "done" /\ want \in {"yes", "no"} /\ (want = "yes") = trusted => Failed(CaseOf(want), Obs) = {}

(* untrusted: nothing of the request as the pipeline sees it depends on h  *)
InvUntrusted ==
  pc = "done" /\ ~trusted =>
     /\ view = [c \in Comps |-> IF c = "query" /\ ~f.actq THEN "none" ELSE "act"]
     /\ ips = <<"peer">> /\ rule = ActualRule /\ vis = {}
     /\ \A n \in Names : "client" \notin up[n]

(* trusted: component-wise override with fallback *)
InvTrusted ==
  pc = "done" /\ trusted =>
     /\ \A c \in Comps \ {"query"} : (h[HeaderOf(c)] = 0 => view[c] = "act") /\ (h[HeaderOf(c)] > 0 => view[c] # "act")
     /\ (h["forwarded"] = 0 /\ h["for"] = 0 => ips = <<"peer">>)

(* C15 side: the upstream never sees -Method/-Uri/-Path; one of             *)
(* X-Forwarded-For / Forwarded carries the peer                             *)
InvUpstream ==
  pc = "done" /\ mode = "proxy" =>
     /\ up["method"] = {} /\ up["uri"] = {} /\ up["path"] = {}
     /\ ("peer" \in up["for"]) # ("peer" \in up["forwarded"])
=============================================================================
