SPECIFICATION Spec
CONSTANTS KeyFn = "ideal"
  MaxEvals = 3
INVARIANTS SomeHit
CHECK_DEADLOCK FALSE
