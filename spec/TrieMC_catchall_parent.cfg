SPECIFICATION Spec
CONSTANTS MaxSet = 1
  Mutant = "catchall_parent"
INVARIANTS Refines EmptyWhenEmpty
CHECK_DEADLOCK FALSE
