----------------------------- MODULE PipelineMC -----------------------------
(***************************************************************************)
(* Exhaustive design run of Pipeline with lazy choice: no pipeline length  *)
(* appears in the state, so the run covers pipelines of every length and   *)
(* mix.  Mutant selects a deliberately wrong variant of one step (negative *)
(* controls showing that the invariants are not vacuous); "none" is the    *)
(* faithful model.                                                         *)
(***************************************************************************)
EXTENDS Pipeline, TLC

CONSTANT Mutant

ErrVals == {Leaf("arg"), Leaf("authn"), Leaf("authz"), Leaf("comm"), Leaf("internal"),
            <<"chain", <<Leaf("authn"), Leaf("arg")>>>>, <<"wrap", Leaf("arg")>>,
            <<"redir", 303>>}

VARIABLES s, fuel

vars == <<s, fuel>>

MaxFuel == 6

Init == s \in {InitState(e) : e \in Entries} /\ fuel = MaxFuel

(* mutants: each is a realistic way the code could be broken *)
MStep(st, it) ==
  CASE Mutant = "swallow" /\ st.pc = "errpipe" /\ it.kind = "eh" /\ Executes(it) /\ it.type = "default"
         -> [st EXCEPT !.pc = "finalize"]                         \* handler forgets SetPipelineError
    [] Mutant = "finalize_ignores" /\ st.pc = "finalize" /\ st.entry = "decision"
         -> [st EXCEPT !.resp = "positive", !.pc = "done"]        \* Finalize ignores the pipeline error
    [] Mutant = "no_applicable_nil" /\ st.pc = "errpipe" /\ it.kind = "exhausted"
         -> [st EXCEPT !.pc = "finalize"]                         \* composite returns nil
    [] Mutant = "cond_error_skips" /\ st.pc \in {"handlers", "finalizers"} /\ it.kind = "step"
         /\ it.cond = "error" -> [st EXCEPT !.allOk = IF it.coe THEN st.allOk ELSE FALSE]
    [] Mutant = "norule_ignored" /\ st.pc = "find" /\ it.result = "none"
         -> [st EXCEPT !.rule = "none", !.pc = "authn"]
    [] OTHER -> Step(st, it)

Stays(st, it) == MStep(st, it).pc = st.pc /\ st.pc # "done"

Next ==
  /\ s.pc # "done"
  /\ \E it \in Items(s, ErrVals) :
       /\ s' = MStep(s, it)
       /\ IF Stays(s, it) THEN fuel > 0 /\ fuel' = fuel - 1 ELSE fuel' = fuel

Spec == Init /\ [][Next]_vars /\ WF_vars(Next)

InvSafety == Safety(s)
InvUpstream == UpstreamOnlyIfPositive(s)
InvNoSwallow == NoSwallow(s)
InvTypes == /\ s.pc \in {"find", "authn", "handlers", "finalizers", "errpipe", "finalize",
                         "translate", "panic", "done"}
            /\ s.resp \in {"none", "positive", "negative"}
            /\ (s.pc = "done") = (s.resp # "none")
(* a negative response always has a non-success status *)
InvNegativeStatus ==
  (s.pc = "done" /\ s.resp = "negative" /\ ~s.panicked)
     => ~IsSuccessStatus(StatusOf(s.retErr, [x \in {} |-> 0]))

Terminates == <>(s.pc = "done")
=============================================================================
