----------------------------- MODULE RuleFactory -----------------------------
(***************************************************************************)
(* Effective pipelines and rule validation (property C14).                 *)
(*                                                                         *)
(* default rule: [present, authn, handlers, finalizers, eh, bt] (the four  *)
(* stage lists are sequences of pipeline steps as in Pipeline.tla)         *)
(* rule: [execute, on_error, bt, forward_to, emptyif] where execute is a   *)
(* sequence of [k, step]: k = "a" authenticator, "z" authorizer,           *)
(* "c" contextualizer, "f" finalizer, "u" reference to an unknown          *)
(* mechanism, "b" known mechanism with an override it refuses,             *)
(* "x" entry without any mechanism key; on_error entries have k = "e",     *)
(* "u", "b" or "x"; bt is "unset", "true" or "false"; emptyif: some step   *)
(* carries an empty `if`.                                                  *)
(***************************************************************************)
EXTENDS Naturals, Sequences, FiniteSets

StageOf(k) == CASE k = "a" -> 1 [] k \in {"z", "c"} -> 2 [] k = "f" -> 3 [] OTHER -> 0

Kinds(ex) == [i \in 1..Len(ex) |-> ex[i].k]

(* ordered: authenticators, then authorizers/contextualizers, then finalizers *)
OrderOK(ex) ==
  \A i \in 1..Len(ex), j \in 1..Len(ex) :
     (i < j /\ StageOf(ex[i].k) # 0 /\ StageOf(ex[j].k) # 0) => StageOf(ex[i].k) <= StageOf(ex[j].k)

RefsOK(ex, ok) == \A i \in 1..Len(ex) : ex[i].k \in ok

Select(ex, ks) == LET s == SelectSeq(ex, LAMBDA e : e.k \in ks) IN [i \in 1..Len(s) |-> s[i].step]

Own(rule) ==
  [authn      |-> Select(rule.execute, {"a"}),
   handlers   |-> Select(rule.execute, {"z", "c"}),
   finalizers |-> Select(rule.execute, {"f"}),
   eh         |-> Select(rule.on_error, {"e"})]

Pick(own, inherited, present) == IF Len(own) # 0 \/ ~present THEN own ELSE inherited

(* stage-wise inheritance *)
Effective(def, rule) ==
  LET o == Own(rule) IN
  [authn      |-> Pick(o.authn, def.authn, def.present),
   handlers   |-> Pick(o.handlers, def.handlers, def.present),
   finalizers |-> Pick(o.finalizers, def.finalizers, def.present),
   eh         |-> Pick(o.eh, def.eh, def.present)]

EffectiveBt(def, rule) ==
  IF rule.bt = "true" THEN TRUE
  ELSE IF rule.bt = "false" THEN FALSE
  ELSE IF def.present THEN def.bt ELSE FALSE

Valid(def, rule, mode) ==
  /\ RefsOK(rule.execute, {"a", "z", "c", "f"})
  /\ RefsOK(rule.on_error, {"e"})
  /\ OrderOK(rule.execute)
  /\ ~rule.emptyif
  /\ Len(Effective(def, rule).authn) >= 1
  /\ (mode = "proxy" => rule.forward_to)
=============================================================================
