SPECIFICATION Spec
CONSTANTS
  Mutant = "none"
  MaxKeys = 2
  MaxCerts = 3
  WideCerts = 2
  MultiKeyCerts = 1
CHECK_DEADLOCK FALSE
INVARIANTS
  InvAllOrNothing
  InvUniqueKids
  InvGivenKidKept
  InvChainIsOwn
  InvChainLinked
  InvChainVerifies
  InvTerminates
  InvJunkRefused
  InvNoKeysRefused
