-------------------------- MODULE EntryPointsTrace --------------------------
(***************************************************************************)
(* Trace validation for C13: one line per logical request, sent through    *)
(* the HTTP decision service (as a trusted proxy would, X-Forwarded headers),*)
(* the Envoy gRPC service (attributes filled the way Envoy does: path with *)
(* query string; and, as a second spelling, with path and query split) and *)
(* the proxy service, all with the same rules.  For every entry point the  *)
(* view the pipeline saw must equal the canonical view of the logical      *)
(* request (built by the driver by construction), the decisions must       *)
(* agree, and the upstream side must receive the same pipeline headers and *)
(* cookies.                                                                *)
(***************************************************************************)
EXTENDS EntryPoints, Json, IOUtils, TLC, SequencesExt

Trace == ndJsonDeserialize(IOEnv.VERIF_TRACE)
OutFile == IOEnv.VERIF_OUT

VARIABLES l, bad, nontrivial

vars == <<l, bad, nontrivial>>

(* the entry points a case went through: decision, envoy (path with query), envoy_split, proxy and - for  *)
(* plain http requests - a proxy that trusts nobody (proxy_untrusted)                                      *)
E(c) == DOMAIN c.obs

(* fields on which the entry points are compared; client addresses are out of scope (C09) *)
Fields == <<"method", "scheme", "host", "path", "query", "captures", "headers", "cookies", "body">>

Violations(c) ==
  LET o == c.obs IN
  (IF \E e \in E(c) : o[e].positive # c.expect THEN {"decision-differs:" \o (CHOOSE e \in E(c) : o[e].positive # c.expect)} ELSE {})
  \cup UNION {{e \o ":" \o Fields[f] : f \in {y \in 1..Len(Fields) : o[e].view[Fields[y]] # c.canon[Fields[y]]}}
              : e \in {x \in E(c) : o[x].positive /\ c.expect}}
  \* entries without a peer they trust: the address the request claims in X-Forwarded-For is not a client address
  \cup {e \o ":client-address-from-header" : e \in {x \in E(c) \cap {"envoy", "envoy_split", "proxy_untrusted"} :
            o[x].positive /\ \E i \in 1..Len(o[x].view.ips) : o[x].view.ips[i] = "198.51.100.7"}}
  \cup (IF c.expect /\ \E e \in E(c) : o[e].positive /\ o[e].up # c.canonup
        THEN {"upstream-side-differs:" \o (CHOOSE e \in E(c) : o[e].positive /\ o[e].up # c.canonup)} ELSE {})
  \cup (IF ~c.expect /\ \E e \in E(c) : o[e].status # c.status
        THEN {"status-differs:" \o (CHOOSE e \in E(c) : o[e].status # c.status)} ELSE {})

Init == l = 1 /\ bad = {} /\ nontrivial = 0

Next ==
  /\ l <= Len(Trace)
  /\ LET c == Trace[l] v == Violations(c) IN
       /\ bad' = IF v = {} THEN bad ELSE bad \cup {[line |-> l, id |-> c.id, reasons |-> SetToSeq(v)]}
       /\ nontrivial' = IF Len(c.canon.captures) > 0 \/ c.canon.query # "" \/ Len(c.canon.headers) > 0
                        THEN nontrivial + 1 ELSE nontrivial
  /\ l' = l + 1

Spec == Init /\ [][Next]_vars

Export == IF l = Len(Trace) + 1 THEN TLCSet(1, bad) /\ TLCSet(2, nontrivial) ELSE TRUE

Done ==
  /\ TLCGet("stats").diameter - 1 = Len(Trace)
  /\ JsonSerialize(OutFile, [lines |-> Len(Trace), nontrivial |-> TLCGet(2), bad |-> SetToSeq(TLCGet(1))])
=============================================================================
