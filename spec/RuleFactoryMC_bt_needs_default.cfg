SPECIFICATION Spec
CONSTANT Mutant = "bt_needs_default"
INVARIANTS StageWise BtRule RejectsMalformed
CHECK_DEADLOCK FALSE
