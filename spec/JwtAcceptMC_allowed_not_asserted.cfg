SPECIFICATION Spec
CONSTANTS Mutant = "allowed_not_asserted"
  Full = FALSE
INVARIANTS InvTypes InvSignature InvUnsigned InvAlgKey InvAlgAllowed InvIssuer InvAudience InvScopes InvValidity InvKidUnique InvMerge InvRefines InvVerdict
CHECK_DEADLOCK FALSE
