SPECIFICATION Spec
CONSTANT Mutant = "allowed_not_asserted"
INVARIANTS InvTypes InvSignature InvUnsigned InvAlgKey InvAlgAllowed InvIssuer InvAudience InvScopes InvValidity InvKidUnique InvMerge InvRefines InvVerdict
CHECK_DEADLOCK FALSE
