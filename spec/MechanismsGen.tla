---------------------------- MODULE MechanismsGen ---------------------------
(***************************************************************************)
(* Schedules for C17, enumerated at constant level: every order of         *)
(* creating the variants of three rules (rule r<i> uses override number i  *)
(* of the mechanism type under test), interleaved with executions of the   *)
(* prototype and of earlier variants: before the first creation nothing or *)
(* the prototype is executed, after the first and the second creation      *)
(* nothing / the prototype / the newest variant / every live object, after *)
(* the third creation every live object.  The driver runs the schedules on *)
(* the real mechanism factory for every mechanism type.                    *)
(***************************************************************************)
EXTENDS Naturals, Sequences, FiniteSets, TLC, Json, IOUtils, SequencesExt, FiniteSetsExt

Env(n, d) == IF n \in DOMAIN IOEnv THEN IOEnv[n] ELSE d
OutFile == Env("VERIF_GEN_OUT", "/dev/null")

RuleIdx == {1, 2, 3}
Gaps0 == {"none", "proto"}
Gaps == {"none", "proto", "newest", "all"}

Create(i) == [a |-> "create", r |-> i, k |-> i, t |-> 0]
Exec(t) == [a |-> "exec", r |-> 0, k |-> 0, t |-> t]      \* t: 0 = prototype, i = variant of rule i

ExecSteps(gap, live, newest) ==
  CASE gap = "none" -> <<>>
    [] gap = "proto" -> <<Exec(0)>>
    [] gap = "newest" -> <<Exec(newest)>>
    [] gap = "all" -> <<Exec(0)>> \o [j \in 1..Len(live) |-> Exec(live[j])]

Steps(o, g0, g1, g2) ==
  ExecSteps(g0, <<>>, 0)
  \o <<Create(o[1])>> \o ExecSteps(g1, <<o[1]>>, o[1])
  \o <<Create(o[2])>> \o ExecSteps(g2, <<o[1], o[2]>>, o[2])
  \o <<Create(o[3])>> \o ExecSteps("all", <<o[1], o[2], o[3]>>, o[3])

ValidOrders == {o \in [1..3 -> RuleIdx] : Cardinality({o[1], o[2], o[3]}) = 3}

Schedules ==
  {[order |-> o, gaps |-> <<g0, g1, g2>>, steps |-> Steps(o, g0, g1, g2)] :
     o \in ValidOrders, g0 \in Gaps0, g1 \in Gaps, g2 \in Gaps}

ASSUME
  /\ ndJsonSerialize(OutFile, SetToSeq(Schedules))
  /\ PrintT(<<"GENERATED", Cardinality(Schedules)>>)
=============================================================================
