SPECIFICATION Spec
CONSTANTS MaxNodes = 4
  Mutant = "authz_before_authn"
INVARIANTS InvTotal InvNeverSuccess InvWrap InvRank InvGrpcHttpAgree
CHECK_DEADLOCK FALSE
