SPECIFICATION Spec
CONSTANTS Backend = "noexpiry"
  Mutant = "none"
  Keys = {"k1"}
INVARIANTS InvNoHitAfterExpiry InvEntryWithinValidity InvEntryLifetime InvZeroTTL InvStoredOnlyIfFresh InvTokenNotExpired
CHECK_DEADLOCK FALSE
