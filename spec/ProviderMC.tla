----------------------------- MODULE ProviderMC -----------------------------
(***************************************************************************)
(* Exhaustive design run of the reference provider of Provider.tla against *)
(* the contract, for 2 sources and every environment history of at most    *)
(* MaxEnv steps, with every placement of the provider's steps, including   *)
(* duplicated and out-of-order notifications.                              *)
(*                                                                         *)
(* Mutant # "none" selects a deliberately wrong provider (negative         *)
(* controls: TLC must refute each of them, which shows that the contract   *)
(* used to judge the real providers is not vacuous).                       *)
(***************************************************************************)
EXTENDS Provider

CONSTANTS MaxEnv, MaxPending, StrictDone

Srcs == {"s1", "s2"}
Versions == {"v1", "v2"}
Classes == IF Kind = "informer" THEN Versions \cup Refused
           ELSE Versions \cup Refused \cup Unreadable \cup {"empty"}

NoEvt == [evt |-> "none", src |-> "", ver |-> ""]
Evt(k, s, v) == [evt |-> k, src |-> s, ver |-> v]

VARIABLES content, link, refusing, pending, stored, active, idOf, ever, offered, budget, bad, last,
          dirty    \* ghost: sources changed (or refused) since the provider last looked at them

vars == <<content, link, refusing, pending, stored, active, idOf, ever, offered, budget, bad, last, dirty>>

EmptyFn == [x \in {} |-> ""]

Init ==
  /\ content = [s \in Srcs |-> "absent"]
  /\ link = [s \in Srcs |-> "up"]
  /\ refusing = FALSE
  /\ offered = [s \in Srcs |-> "none"]
  /\ dirty = {}
  /\ pending = <<>>
  /\ stored = [s \in Srcs |-> "none"]
  /\ active = EmptyFn
  /\ idOf = [s \in Srcs |-> Id(s)]
  /\ ever = {}
  /\ budget = MaxEnv
  /\ bad = {}
  /\ last = NoEvt

Queued == Kind \in {"fs", "informer"}

(* ------------------------------------------------------------ environment *)
EnvStep(newContent, newLink, notes) ==
  /\ budget > 0
  /\ UNCHANGED refusing
  /\ dirty' = dirty \cup {s \in Srcs : newContent[s] # content[s]}
  /\ Len(pending) + Len(notes) <= MaxPending
  /\ budget' = budget - 1
  /\ content' = newContent
  /\ link' = newLink
  /\ pending' = IF Queued THEN pending \o notes ELSE pending
  /\ UNCHANGED <<stored, active, idOf, ever, offered, bad, last>>

(* the processor starts / stops refusing every load; providers without polling only retry when *)
(* they are notified again, hence everything counts as changed when the refusal ends           *)
Refuse(on) ==
  /\ budget > 0 /\ refusing # on
  /\ budget' = budget - 1
  /\ refusing' = on
  /\ dirty' = IF on THEN dirty ELSE Srcs
  /\ UNCHANGED <<content, link, pending, stored, active, idOf, ever, offered, bad, last>>

Set(s, c) ==
  /\ c # content[s]
  /\ EnvStep([content EXCEPT ![s] = c], link,
             IF Kind = "fs" THEN <<Evt(IF content[s] = "absent" THEN "CREATE" ELSE "WRITE", s, "")>>
             ELSE <<Evt(IF content[s] = "absent" THEN "add" ELSE "update", s, c)>>)

Remove(s) ==
  /\ content[s] # "absent"
  /\ EnvStep([content EXCEPT ![s] = "absent"], link,
             IF Kind = "fs" THEN <<Evt("REMOVE", s, "")>> ELSE <<Evt("delete", s, "absent")>>)

Rename(s, t) ==
  /\ Kind = "fs" /\ s # t /\ content[s] # "absent"
  /\ EnvStep([content EXCEPT ![t] = content[s], ![s] = "absent"], link,
             <<Evt("RENAME", s, ""), Evt("CREATE", t, "")>>)

Chmod(s) ==
  /\ Kind = "fs" /\ content[s] # "absent"
  /\ EnvStep(content, link, <<Evt("CHMOD", s, "")>>)

Resync(s) ==
  /\ Kind = "informer" /\ content[s] # "absent"
  /\ EnvStep(content, link, <<Evt("resync", s, content[s])>>)

Fault(s, f) ==
  /\ Kind \in {"poll1", "pollN"} /\ link[s] # f
  /\ (Kind = "pollN" => f # "s5xx")
  /\ EnvStep(content, IF Kind = "pollN" THEN [x \in Srcs |-> f] ELSE [link EXCEPT ![s] = f], <<>>)

Env ==
  \/ \E s \in Srcs, c \in Classes : Set(s, c)
  \/ \E s \in Srcs : Remove(s) \/ Chmod(s) \/ Resync(s)
  \/ \E s, t \in Srcs : Rename(s, t)
  \/ \E s \in Srcs, f \in {"up", "refused", "s5xx"} : Fault(s, f)
  \/ \E on \in BOOLEAN : Refuse(on)

(* --------------------------------------------------------------- provider *)
St(cur) ==
  BeginStep([kind |-> Kind, content |-> content, link |-> link, refusing |-> refusing, active |-> active,
             idOf |-> idOf, ever |-> ever, offered |-> offered, called |-> {}, cur |-> cur,
             before |-> <<>>], cur)

Finish(cur, calls, newStored) ==
  LET r == Exec(St(cur), calls, {}) IN
  /\ active' = r.st.active
  /\ idOf' = r.st.idOf
  /\ ever' = r.st.ever
  /\ offered' = r.st.offered
  /\ stored' = newStored
  /\ dirty' = dirty \ {s \in Srcs : \/ cur.src = "*"
                                    \/ cur.src = s /\ (Kind # "informer" \/
                                          (cur.ver = content[s] /\ cur.evt # "resync"))}
  /\ bad' = bad \cup r.reasons \cup {x.r : x \in DoneReasons(r.st, StrictDone)}
  /\ UNCHANGED <<content, link, refusing, budget>>

HandleFs(e) ==
  LET s == e.src
      v == IF Mutant = "remove_unchecked" /\ e.evt = "REMOVE" THEN "absent" ELSE View(content, link, s)
      res == IF Mutant = "ignore_rename" /\ e.evt = "RENAME" THEN NoCalls(stored[s])
             ELSE RefSync(s, v, stored[s], FALSE, refusing)
  IN Finish(Evt(e.evt, s, ""), res.calls, [stored EXCEPT ![s] = res.stored])

HandleInformer(e) == Finish(e, RefInformer(e, refusing), stored)

HandleEvt(e) == IF Kind = "fs" THEN HandleFs(e) ELSE HandleInformer(e)

RemoveAt(q, i) == SubSeq(q, 1, i - 1) \o SubSeq(q, i + 1, Len(q))

(* in order (i = 1) or out of order (fs only: the informer keeps the order per object) *)
Handle(i) ==
  /\ Queued /\ i \in 1..Len(pending)
  /\ (Kind = "informer" => i = 1)
  /\ pending' = RemoveAt(pending, i)
  /\ last' = pending[i]
  /\ HandleEvt(pending[i])

(* a duplicated notification *)
Dup ==
  /\ Queued /\ last.evt # "none"
  /\ (Kind = "informer" => last.evt = "resync")
  /\ UNCHANGED <<pending, last>>
  /\ HandleEvt(last)

Poll(s, b) ==
  /\ Kind = "poll1"
  /\ LET res == RefSync(s, View(content, link, s), stored[s], b, refusing) IN
     Finish(Evt("poll", s, ""), res.calls, [stored EXCEPT ![s] = res.stored])
  /\ UNCHANGED <<pending, last>>

PollAll(b) ==
  /\ Kind = "pollN"
  /\ LET blocked == Mutant = "invalid_blocks_bucket" /\ \E s \in Srcs : View(content, link, s) \in Unreadable
         res == [s \in Srcs |-> IF blocked THEN NoCalls(stored[s])
                                ELSE RefSync(s, View(content, link, s), stored[s], b, refusing)]
     IN Finish(Evt("poll", "*", ""), res["s1"].calls \o res["s2"].calls, [s \in Srcs |-> res[s].stored])
  /\ UNCHANGED <<pending, last>>

ProviderStep ==
  \/ \E i \in 1..MaxPending : Handle(i)
  \/ Dup
  \/ \E s \in Srcs, b \in BOOLEAN : Poll(s, b)
  \/ \E b \in BOOLEAN : PollAll(b)

Next == Env \/ ProviderStep

Fairness ==
  /\ WF_vars(Handle(1))
  /\ \A s \in Srcs : WF_vars(\E b \in BOOLEAN : Poll(s, b))
  /\ WF_vars(\E b \in BOOLEAN : PollAll(b))

Spec == Init /\ [][Next]_vars /\ Fairness

(* ------------------------------------------------------------- properties *)
(* every call the provider made was allowed (NoSpuriousCall, ExactlyOnce: at most once,      *)
(* DeleteTargetsCreatedId, nothing on communication errors) and every finished step left the *)
(* sources it looked at synchronised (ExactlyOnce: at least once; unload; keep on invalid)   *)
InvAllowed == bad = {}

(* the stored hash is the hash of what the processor accepted: refused => stored unchanged *)
InvStoredIsApplied ==
  Kind # "informer" => \A s \in Srcs : stored[s] = Entry(active, idOf, s)

InvTypes ==
  /\ \A s \in Srcs : content[s] \in Classes \cup {"absent"} /\ link[s] \in {"up", "refused", "s5xx"}
  /\ DOMAIN active \subseteq ever
  /\ budget \in 0..MaxEnv

AllConverged ==
  \A s \in Srcs \ (IF Queued THEN dirty ELSE {}) :
     Converged(View(content, link, s), Entry(active, idOf, s), refusing)

(* after the environment went quiet and the pending notifications / one more poll were processed *)
Converges == <>[]AllConverged
=============================================================================
