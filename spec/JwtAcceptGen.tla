----------------------------- MODULE JwtAcceptGen -----------------------------
(***************************************************************************)
(* Case generation for C05: the abstract token x key set x assertion space *)
(* of JwtAccept over the real key fixtures and algorithm names, written as *)
(* NDJSON.  The space is pruned by independence:                           *)
(*   family "crypto"  signature / alg / kid / key-set shape / allowed      *)
(*                    algorithms (mechanism and rule level) in full        *)
(*                    product, claims valid                                *)
(*   family "iss" "aud" "scp" "time"  one claim dimension with its         *)
(*                    mechanism- and rule-level assertion in full product, *)
(*                    everything else valid                                *)
(*   family "cross"   pairs of the claim families (thorough: all pairs in  *)
(*                    full, quick: a reduced product)                      *)
(* Quick runs the full crypto product for five primary key/alg pairs and a *)
(* reduced one for the other sixteen; thorough runs it for all twenty-one. *)
(* The Go driver constructs each token by really signing it, so the        *)
(* attributes hold by construction; sub and the spelling of issuers,       *)
(* audiences and scopes are filled in there.                               *)
(***************************************************************************)
EXTENDS JwtAccept, Json, IOUtils, TLC, SequencesExt, FiniteSetsExt

Env(n, d) == IF n \in DOMAIN IOEnv THEN IOEnv[n] ELSE d
OutFile == Env("VERIF_GEN_OUT", "/tmp/c05cases.ndjson")
Thorough == Env("VERIF_GEN_TIER", "quick") = "thorough"

Rsa == {"rsa2048", "rsa3072", "rsa4096"}
RsaAlgs == <<"PS256", "PS384", "PS512", "RS256", "RS384", "RS512">>
KeyAlgs(k) == CASE k \in Rsa -> Range(RsaAlgs)
                [] k = "ec256" -> {"ES256"} [] k = "ec384" -> {"ES384"} [] k = "ec521" -> {"ES512"}
Keys == Rsa \cup {"ec256", "ec384", "ec521"}
AllAlgs == Range(RsaAlgs) \cup {"ES256", "ES384", "ES512"}
Pairs == {p \in Keys \X AllAlgs : p[2] \in KeyAlgs(p[1])}
Primary == {<<"rsa2048", "PS256">>, <<"rsa3072", "RS384">>, <<"rsa4096", "PS512">>,
            <<"ec256", "ES256">>, <<"ec521", "ES512">>}

Attacker(k) == k \o "b"                      \* a second key of the same type, never published as k
Second(k) == IF k \in Rsa THEN [key |-> "ec256", alg |-> "ES256"] ELSE [key |-> "rsa2048", alg |-> "PS256"]
(* another algorithm name of the same family (a declaration that differs)  *)
OtherAlg(x) ==
  CASE x = "PS256" -> "PS384" [] x = "PS384" -> "PS512" [] x = "PS512" -> "RS256"
    [] x = "RS256" -> "RS384" [] x = "RS384" -> "RS512" [] x = "RS512" -> "PS256"
    [] x = "ES256" -> "ES384" [] x = "ES384" -> "ES512" [] x = "ES512" -> "ES256"

E(k, a, id, c) == [key |-> k, alg |-> a, kid |-> id, cert |-> c]
A(iss, aud, scp, algs, lw) == [iss |-> iss, aud |-> aud, scp |-> scp, algs |-> algs, leeway |-> lw]

Shapes(k, x) ==
  LET s == Second(k) y == OtherAlg(x) IN
  {<<E(k, x, "id1", "none")>>,
   <<E(s.key, s.alg, "id2", "none"), E(k, x, "id1", "none")>>,
   <<E(k, x, Absent, "none")>>,
   <<E(s.key, s.alg, Absent, "none"), E(k, x, Absent, "none")>>,
   <<E(k, y, "id1", "none")>>,                                    \* declared algorithm differs
   <<E(k, Absent, "id1", "none")>>,                               \* no declared algorithm
   <<E(k, x, "id1", "none"), E(s.key, s.alg, "id1", "none")>>,    \* duplicate kid
   <<E(s.key, s.alg, "id1", "none")>>,                            \* signing key not published
   <<E(Attacker(k), x, "id1", "none")>>,                          \* another key of the same type
   <<>>,
   <<E(k, y, "id1", "none"), E(k, x, "id2", "none")>>,            \* same key, two declarations
   <<E(k, "HS256", "id1", "none")>>,                              \* public key declared as HMAC key
   <<E(k, x, "id1", "good")>>,
   <<E(k, x, "id1", "untrusted")>>}

Sigs(k, x) == {<<k, x>>, <<Attacker(k), x>>, <<"none", "none">>, <<"hmacpub", "HS256">>}

GoodClaims == [iss |-> "i1", aud |-> <<"a1">>, scp |-> <<"s1">>, exp |-> <<300>>, nbf |-> <<-60>>,
               iat |-> <<-60>>, sub |-> ""]

Tok(sig, kid, claims) == [signedBy |-> sig[1], alg |-> sig[2], kid |-> kid] @@ claims

Case(fam, t, j, mech, rule) == [fam |-> fam, t |-> t, j |-> j, mech |-> mech, rule |-> rule, mut |-> "none"]

(* allowed-algorithm settings (mechanism, rule) relative to the token's alg x *)
AlgConfs(x) ==
  LET y == OtherAlg(x) IN
  {<<m, r>> : m \in {<<>>, <<x>>, <<y>>, <<x, "HS256">>}, r \in {<<>>, <<x>>, <<y, "HS256">>}}

Crypto(p, full) ==
  LET k == p[1] x == p[2] IN
  {Case("crypto", Tok(sig, kid, GoodClaims), j,
        A(<<"i1">>, <<>>, <<>>, ac[1], 0), A(<<>>, <<>>, <<>>, ac[2], 0)) :
     sig \in Sigs(k, x),
     kid \in IF full THEN {Absent, "id1", "idx"} ELSE {Absent, "id1"},
     j \in Shapes(k, x),
     ac \in IF full THEN AlgConfs(x)
            ELSE {<<IF x \in Range(DefaultAllowed) THEN <<>> ELSE <<x>>, <<>>>>}}

(* ------------------------------ claims ---------------------------------- *)
Valid(k, x) == [j |-> <<E(k, x, "id1", "none")>>,
                algs |-> IF x \in Range(DefaultAllowed) THEN <<>> ELSE <<x>>]

IssDim == {[t |-> [iss |-> i], m |-> [iss |-> m], r |-> [iss |-> r]] :
             i \in {"i1", "i2", "i3", Absent}, m \in {<<"i1">>, <<"i1", "i2">>},
             r \in {<<>>, <<"i2">>, <<"i3", "i1">>}}
AudDim == {[t |-> [aud |-> a], m |-> [aud |-> m], r |-> [aud |-> r]] :
             a \in {<<>>, <<"a1">>, <<"a2">>, <<"a3", "a1">>, <<"a3">>},
             m \in {<<>>, <<"a1">>, <<"a1", "a2">>}, r \in {<<>>, <<"a2">>}}
ScpDim == {[t |-> [scp |-> s], m |-> [scp |-> m], r |-> [scp |-> r]] :
             s \in {<<>>, <<"s1">>, <<"s2", "s1">>, <<"s3">>}, m \in {<<>>, <<"s1">>},
             r \in {<<>>, <<"s1", "s2">>, <<"s3">>}}

(* offsets keep >= 5 s distance from the thresholds of every leeway in use  *)
(* (10 default, 20, 60, 90)                                                  *)
Times ==
  {[exp |-> <<e>>, nbf |-> <<-60>>, iat |-> <<-60>>] : e \in {300, -5, -15, -40, -75, -120}}
  \cup {[exp |-> <<300>>, nbf |-> <<n>>, iat |-> <<-60>>] : n \in {5, 15, 40, 75, 120}}
  \cup {[exp |-> <<300>>, nbf |-> <<>>, iat |-> <<>>],
        [exp |-> <<>>, nbf |-> <<-60>>, iat |-> <<-60>>],
        [exp |-> <<300>>, nbf |-> <<-60>>, iat |-> <<120>>],
        [exp |-> <<-40>>, nbf |-> <<-60>>, iat |-> <<120>>]}
TimeDim == {[t |-> tm, m |-> [leeway |-> m], r |-> [leeway |-> r]] :
              tm \in Times, m \in {0, 60}, r \in {0, 20, 90}}

Small(d) == CASE d = "iss" -> {x \in IssDim : x.t.iss \in {"i1", "i3"} /\ x.m.iss = <<"i1">> /\ x.r.iss = <<>>}
              [] d = "aud" -> {x \in AudDim : x.t.aud \in {<<"a1">>, <<"a3">>} /\ x.m.aud = <<"a1">> /\ x.r.aud = <<>>}
              [] d = "scp" -> {x \in ScpDim : x.t.scp \in {<<"s1">>, <<"s3">>} /\ x.m.scp = <<"s1">> /\ x.r.scp = <<>>}
              [] d = "time" -> {x \in TimeDim : x.t.exp \in {<<300>>, <<-120>>} /\ x.t.iat = <<-60>>
                                               /\ x.t.nbf \in {<<-60>>, <<120>>} /\ x.m.leeway = 0 /\ x.r.leeway = 0}

Over(base, part) == [f \in DOMAIN base |-> IF f \in DOMAIN part THEN part[f] ELSE base[f]]

ClaimCase(fam, p, kid, parts) ==
  LET v == Valid(p[1], p[2])
      bm == A(<<"i1">>, <<>>, <<>>, v.algs, 0)
      br == A(<<>>, <<>>, <<>>, <<>>, 0)
      RECURSIVE App(_, _, _)
      App(b, i, sel) == IF i > Len(parts) THEN b ELSE App(Over(b, parts[i][sel]), i + 1, sel)
  IN Case(fam, Tok(p, kid, App(GoodClaims, 1, "t")), v.j, App(bm, 1, "m"), App(br, 1, "r"))

Claims(p) ==
  {ClaimCase("iss", p, "id1", <<x>>) : x \in IssDim}
  \cup {ClaimCase("aud", p, "id1", <<x>>) : x \in AudDim}
  \cup {ClaimCase("scp", p, Absent, <<x>>) : x \in ScpDim}
  \cup {ClaimCase("time", p, "id1", <<x>>) : x \in TimeDim}

CrossQuick(p) ==
  {ClaimCase("cross", p, kid, <<a, b, c, d>>) :
     kid \in {"id1", Absent}, a \in Small("iss"), b \in Small("aud"), c \in Small("scp"), d \in Small("time")}

CrossFull(p) ==
  {ClaimCase("cross", p, "id1", <<a, b>>) : a \in IssDim, b \in AudDim}
  \cup {ClaimCase("cross", p, "id1", <<a, b>>) : a \in IssDim, b \in ScpDim}
  \cup {ClaimCase("cross", p, "id1", <<a, b>>) : a \in IssDim, b \in TimeDim}
  \cup {ClaimCase("cross", p, Absent, <<a, b>>) : a \in AudDim, b \in ScpDim}
  \cup {ClaimCase("cross", p, Absent, <<a, b>>) : a \in AudDim, b \in TimeDim}
  \cup {ClaimCase("cross", p, "id1", <<a, b>>) : a \in ScpDim, b \in TimeDim}

(* valid tokens the driver derives the mutation catalogue from (flipped    *)
(* bytes, swapped / missing / duplicated parts, rewritten alg and kid,     *)
(* re-signing with another key ...), with and without kid                  *)
Base(p) ==
  LET v == Valid(p[1], p[2]) s == Second(p[1])
      m == A(<<"i1">>, <<"a1">>, <<"s1">>, v.algs, 0)
      r == A(<<>>, <<>>, <<>>, <<>>, 0)
  IN {Case("base", Tok(p, "id1", GoodClaims), <<E(s.key, s.alg, "id2", "none"), E(p[1], p[2], "id1", "none")>>, m, r),
      Case("base", Tok(p, Absent, GoodClaims), <<E(s.key, s.alg, Absent, "none"), E(p[1], p[2], Absent, "none")>>, m, r)}

(* The cases are written piece by piece (one piece per key/alg pair) so    *)
(* that no set of all cases has to be built.                               *)
PerPair(p) ==
  Base(p) \cup Crypto(p, Thorough \/ p \in Primary)
  \cup (IF Thorough \/ p \in Primary THEN Claims(p) ELSE {})

PerPrimary(p) == CrossQuick(p) \cup (IF Thorough THEN CrossFull(p) ELSE {})

ASSUME
  LET ps == SetToSeq(Pairs)
      pr == SetToSeq(Primary)
      cs == FlattenSeq([i \in 1..Len(ps) |-> SetToSeq(PerPair(ps[i]))])
            \o FlattenSeq([i \in 1..Len(pr) |-> SetToSeq(PerPrimary(pr[i]))])
  IN /\ ndJsonSerialize(OutFile, cs)
     /\ PrintT(<<"GENERATED", Len(cs)>>)
=============================================================================
