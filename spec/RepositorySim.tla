----------------------------- MODULE RepositorySim -----------------------------
(***************************************************************************)
(* Schedule generation for C07 (pattern S): TLC simulates RepositoryMC     *)
(* (`tlc -simulate`) with the sequence of (process, action) steps carried  *)
(* in a history variable and prints every complete behaviour as one JSON   *)
(* line.  The Go driver replays each schedule on the real repository: the  *)
(* trace points act as gates, so exactly the process named by the next     *)
(* step runs until it reaches the trace point that ends that step.         *)
(***************************************************************************)
EXTENDS RepositoryMC, Json

VARIABLE hist

svars == <<vars, hist>>

SInit == Init /\ hist = <<>>

Rec(p, a) == hist' = Append(hist, [p |-> p, a |-> a])

(* whether the second mutation step of writer w succeeds is part of the schedule *)
SNext ==
  \/ \E w \in Writers :
        \/ KLock(w) /\ Rec(w, "KLock")
        \/ Clone(w) /\ Rec(w, "Clone")
        \/ Mutate1(w) /\ Rec(w, "Mutate1")
        \/ Mutate2(w) /\ Rec(w, IF pc'[w] = "failed" THEN "Fail" ELSE "Mutate2")
        \/ TLock(w) /\ Rec(w, "TLock")
        \/ Swap(w) /\ Rec(w, "Swap")
        \/ TUnlock(w) /\ Rec(w, "TUnlock")
        \/ KUnlock(w) /\ Rec(w, "KUnlock")
  \/ \E r \in Readers :
        \/ RLock(r) /\ Rec(r, "RLock")
        \/ SearchStart(r) /\ Rec(r, "SearchStart")
        \/ SearchEnd(r) /\ Rec(r, "SearchEnd")
        \/ RUnlock(r) /\ Rec(r, "RUnlock")

SSpec == SInit /\ [][SNext]_svars

(* printed once per behaviour: at the state in which everything is done *)
Emit == Done => PrintT("SCHEDULE " \o ToJson(hist))
=============================================================================
