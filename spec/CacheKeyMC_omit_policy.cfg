SPECIFICATION Spec
CONSTANTS KeyFn = "omit_policy"
  MaxEvals = 3
INVARIANTS InvNoCrossReuse
CHECK_DEADLOCK FALSE
