SPECIFICATION Spec
CONSTANTS
  Kind = "fs"
  Mutant = "none"
  MaxEnv = 5
  MaxPending = 3
  StrictDone = TRUE
INVARIANTS InvAllowed InvStoredIsApplied InvTypes
PROPERTY Converges
CHECK_DEADLOCK FALSE
