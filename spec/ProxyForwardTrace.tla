--------------------------- MODULE ProxyForwardTrace ---------------------------
(***************************************************************************)
(* Trace validation for C15.  Every line is one fully logged case executed *)
(* on the real assembled proxy service: token form of the request and the  *)
(* rule (input of ProxyForward!FailedPF) and of what the recording         *)
(* upstream received.  One non-blocking action per line; all failing cases *)
(* are known after one pass.                                               *)
(***************************************************************************)
EXTENDS ProxyForward, Json, IOUtils, TLC, SequencesExt

Trace == ndJsonDeserialize(IOEnv.VERIF_TRACE)
OutFile == IOEnv.VERIF_OUT

VARIABLES l, bad, nontrivial

vars == <<l, bad, nontrivial>>

HasEncoded(p) == \E i \in 1..Len(p) : p[i].c \in {"U", "D", "X", "r", "p", "s"}

(* non-trivial: something must be transformed, kept in a non-plain         *)
(* spelling, replaced, dropped or appended beyond the peer address         *)
NonTrivial(c) ==
  \/ c.strip # <<>> \/ c.add # <<>> \/ c.rw_scheme # "" \/ c.qstrip # <<>>
  \/ HasEncoded(c.path) \/ c.rawq # "" \/ c.bodylen > 0 \/ c.method # "GET"
  \/ c.ph # <<>> \/ c.pass \/ \E n \in Names : c.fh[n] > 0

Expected(c) ==
  [path |-> Rewritten(OrigPath(c), c.strip, c.add),
   cut_open |-> CutIsOpen(OrigPath(c), c.strip, c.slashes),
   path_alts |-> IF CutIsOpen(OrigPath(c), c.strip, c.slashes)
                 THEN <<c.add \o OrigPath(c), c.add \o SubSeq(OrigPath(c), Len(c.strip) + 1, Len(OrigPath(c)))>>
                 ELSE <<Rewritten(OrigPath(c), c.strip, c.add)>>,
   scheme |-> IF c.rw_scheme # "" THEN c.rw_scheme ELSE OrigScheme(c),
   honoured |-> Req(c)]

Init == l = 1 /\ bad = {} /\ nontrivial = 0

(* bad holds line numbers only (small states); the verdict records are     *)
(* built once, at the end                                                  *)
Next ==
  /\ l <= Len(Trace)
  /\ LET c == Trace[l]
     IN /\ bad' = IF FailedPF(c, c.obs) = {} THEN bad ELSE bad \cup {l}
        /\ nontrivial' = IF NonTrivial(c) THEN nontrivial + 1 ELSE nontrivial
  /\ l' = l + 1

Spec == Init /\ [][Next]_vars

Record(n) == LET c == Trace[n] IN
  [line |-> n, id |-> c.id, reasons |-> SetToSeq(FailedPF(c, c.obs)), expected |-> Expected(c)]

Done ==
  /\ TLCGet("stats").diameter - 1 = Len(Trace)
  /\ JsonSerialize(OutFile, [lines |-> Len(Trace), nontrivial |-> TLCGet(3),
                             bad |-> LET ls == SetToSeq(TLCGet(1)) IN [i \in 1..Len(ls) |-> Record(ls[i])]])

Export == IF l = Len(Trace) + 1 THEN TLCSet(1, bad) /\ TLCSet(3, nontrivial) ELSE TRUE
=============================================================================
