------------------------------ MODULE ReloadMC ------------------------------
(* Design run of the lifecycle automaton of Reload.tla; the mutants "reject_clears_state" and  *)
(* "feed_may_crash" are negative controls.                                                      *)
EXTENDS Reload
MCEntries == {"signer", "ruleset"}
MCClasses == {"valid", "empty", "truncation", "json-proper-prefix", "type-confusion"}
=============================================================================
