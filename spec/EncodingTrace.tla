---------------------------- MODULE EncodingTrace ----------------------------
(***************************************************************************)
(* Trace validation for C08: rule sets are loaded (op lines, as in         *)
(* RuleIndexTrace) and requests are sent in many equivalent spellings      *)
(* (probe lines carrying the abstract spelling).  For every probe the      *)
(* observation must be consistent with Encoding!Expected.                  *)
(***************************************************************************)
EXTENDS Encoding, RuleIndex, Json, IOUtils, TLC

Trace == ndJsonDeserialize(IOEnv.VERIF_TRACE)
OutFile == IOEnv.VERIF_OUT

VARIABLES l, srcs, sets, hasDefault, bad, nontrivial, tr

vars == <<l, srcs, sets, hasDefault, bad, nontrivial, tr>>

Init == l = 1 /\ srcs = <<>> /\ sets = [x \in {} |-> <<>>] /\ hasDefault = FALSE /\ bad = {}
        /\ nontrivial = 0 /\ tr = 0

Bad(why) == bad' = bad \cup {[line |-> l, trace |-> tr, why |-> why, exp |-> <<>>]}
BadExp(why, exps) == bad' = bad \cup {[line |-> l, trace |-> tr, why |-> why, exp |-> SetToSeq(exps)]}

Reset(ev) ==
  /\ srcs' = <<>> /\ sets' = [x \in {} |-> <<>>] /\ hasDefault' = ev.default
  /\ tr' = ev.trace /\ UNCHANGED <<bad, nontrivial>>

(* only successful adds occur in C08 traces *)
Op(ev) ==
  /\ UNCHANGED <<hasDefault, tr, nontrivial>>
  /\ IF ev.result = "ok"
     THEN /\ srcs' = Append(srcs, ev.src)
          /\ sets' = [x \in DOMAIN sets \cup {ev.src} |-> IF x = ev.src THEN ev.rules ELSE sets[x]]
          /\ UNCHANGED bad
     ELSE /\ UNCHANGED <<srcs, sets>> /\ Bad("load-rejected")

(* is observation ev consistent with expectation x ? returns "" or the reason *)
Check(flat, ev, x) ==
  LET sp == ev.req.spelling IN
  IF x.reject
  THEN IF ev.positive THEN "encoded-slash-accepted"
       ELSE IF ev.upstream # "" THEN "encoded-slash-forwarded"
       ELSE IF ev.status \notin {400, 404} THEN "encoded-slash-not-precondition-error"
       ELSE ""
  ELSE IF ev.got # x.rule THEN "matched-rule-differs"
  ELSE IF x.rule \in {"default", "norule"} THEN ""
  ELSE LET on == x.setting = "on"
           q == [method |-> ev.req.method, scheme |-> ev.req.scheme, host |-> ev.req.host,
                 path |-> KeepPath(sp), pathOn |-> OnPath(sp)]
           mr == MatchedRoute(flat, q, x.rule)
           obs == {<<ev.caps[i][1], ev.caps[i][2]>> : i \in 1..Len(ev.caps)}
           capsOK == ~ev.hascaps \/
                     \E pr \in mr : Captures(ExprAt(flat, pr), IF on THEN OnPath(sp) ELSE KeepPath(sp)) = obs
       IN IF ~capsOK THEN "captures-differ"
          ELSE IF ev.upstream # "" /\ ev.upstream # Canon(sp, on) THEN "upstream-path-differs"
          ELSE ""

ProbeEv(ev) ==
  LET flat == Flatten(srcs, sets)
      exps == Expected(flat, ev.req, hasDefault)
      reasons == {Check(flat, ev, x) : x \in exps}
  IN /\ UNCHANGED <<srcs, sets, hasDefault, tr>>
     /\ nontrivial' = IF \E i \in 1..Len(ev.req.spelling) : \E j \in 1..Len(ev.req.spelling[i]) :
                            ev.req.spelling[i][j].enc
                      THEN nontrivial + 1 ELSE nontrivial
     /\ IF "" \in reasons THEN UNCHANGED bad ELSE BadExp(CHOOSE r \in reasons : TRUE, exps)

Next ==
  /\ l <= Len(Trace)
  /\ LET ev == Trace[l] IN
       CASE ev.ev = "reset" -> Reset(ev)
         [] ev.ev = "op"    -> Op(ev)
         [] ev.ev = "probe" -> ProbeEv(ev)
  /\ l' = l + 1

Spec == Init /\ [][Next]_vars

Export == IF l = Len(Trace) + 1 THEN TLCSet(1, bad) /\ TLCSet(2, nontrivial) ELSE TRUE

Done ==
  /\ TLCGet("stats").diameter - 1 = Len(Trace)
  /\ JsonSerialize(OutFile, [lines |-> Len(Trace), nontrivial |-> TLCGet(2), bad |-> SetToSeq(TLCGet(1))])
=============================================================================
