------------------------------ MODULE Heimdall ------------------------------
(***************************************************************************)
(* The composition "e2e", explicit:                                        *)
(*                                                                         *)
(*   environment   the sources (rule-set files / endpoint documents) with  *)
(*                 versioned contents: valid v1..vn, empty, invalid,       *)
(*                 removed.  A write of a file source announces itself     *)
(*                 (notification); an endpoint is polled.                  *)
(*   provider      notification / poll -> fetch the CURRENT content ->     *)
(*                 decide with the stored hash (Provider!RefSync) -> call  *)
(*                 the rule-set processor.  Fetch and call are two steps:  *)
(*                 the environment and the requests move in between.       *)
(*   repository    the current version per source; a processor call        *)
(*                 replaces it in one step (add / replace / delete).       *)
(*   requests      start -> lookup (RuleIndex!Probe on the rule sets       *)
(*                 active at that instant) -> end with the tag of the      *)
(*                 rule that answered.                                     *)
(*   observer      what the driver of the real service records: writes,    *)
(*                 acknowledgements, requests.  With Stamped = TRUE every   *)
(*                 event carries the value of one counter, exactly as in   *)
(*                 the recorded traces, and the contract is evaluated on   *)
(*                 the stamps; with Stamped = FALSE the observer keeps,    *)
(*                 per request, what the stamps stand for (acknowledgement *)
(*                 in force at the start, last write before the end,       *)
(*                 newest version seen by requests finished before the     *)
(*                 start), which keeps the state space small enough for    *)
(*                 2 sources.  The stamped run checks that both agree.     *)
(*                                                                         *)
(* It closes the gap that C07 (Repository.tla: repository and processor    *)
(* driven directly) and C18 (Provider.tla: the providers' handlers called  *)
(* synchronously) leave open: the providers' own goroutines wired to       *)
(* processor, repository and request pipeline in one service.              *)
(*                                                                         *)
(* Properties E1-E4 are stated twice: on the state of the composition      *)
(* (InvE1..InvE4, with ghost variables) and through the contract of        *)
(* HeimdallOps applied to the observer's record (InvContract) - the same   *)
(* operators that judge the traces of the real service.  Mutants (constant *)
(* Mutant) are negative controls: TLC must refute each.                    *)
(*   delete_add           update = delete, then add (window without rule)  *)
(*   concurrent_handlers  two provider workers: an older fetch may be      *)
(*                        applied after a newer one (version regression)   *)
(*   lost_final           a notification arriving while the provider works *)
(*                        on the same source is dropped (lost version)     *)
(*   invalid_unloads      unreadable content unloads the rule set          *)
(*   lookup_cache         responses are served from a per-path cache that  *)
(*                        is never invalidated (stale beyond the window)   *)
(*   remove_ignored       a removed / emptied source stays loaded          *)
(*   contract_without_torn_reads  not a wrong composition but a stricter   *)
(*                        contract: without the torn-read clause of        *)
(*                        HeimdallOps the reference composition itself is  *)
(*                        rejected (why the clause exists)                 *)
(***************************************************************************)
EXTENDS HeimdallOps

CONSTANTS Srcs,       \* source names, e.g. {"s1", "s2"}
          Reqs,       \* request processes, each performs one request
          MaxEnv,     \* number of environment steps
          MaxVer,     \* valid versions per source
          Segs,       \* last path segments requested
          EnvClasses, \* what the environment may write: subset of {"valid", "empty", "invalid", "absent"}
          Stamped     \* the observer stamps its events with a counter (see above)

VARIABLES content,    \* source -> [c, rules]: what the source holds
          nver,       \* source -> number of valid versions written
          budget,     \* remaining environment steps
          pending,    \* notifications not yet handled (sequence of sources), file sources
          seen,       \* source -> the provider has fetched the last write (pollers: polled after it)
          worker,     \* provider workers: [pc, src, view, vidx]
          stored,     \* source -> version name the provider believes to be loaded ("none")
          active,     \* THE REPOSITORY: source -> None or [c, rules]
          repoOp,     \* "idle" or the source whose non-atomic update is half done (mutant delete_add)
          req,        \* request process -> [pc, src, seg, tag, ...]
          cache,      \* <<src, seg>> -> tag (mutant lookup_cache)
          \* the observer's record
          clock, W, A, St, hiM, bad,
          \* ghosts for the properties stated on the composition itself
          actIdx,     \* source -> write index the active version stems from
          hiT,        \* source -> newest actIdx seen by a finished request
          viol

vars == <<content, nver, budget, pending, seen, worker, stored, active, repoOp, req, cache,
          clock, W, A, St, hiM, bad, actIdx, hiT, viol>>

NWorkers == IF Mutant = "concurrent_handlers" THEN 2 ELSE 1
Workers == 1..NWorkers
IdleW == [pc |-> "idle", src |-> "", view |-> None, vidx |-> 0]
ViewOf(x) == IF P!IsValid(x.c) THEN Version(x.c, x.rules) ELSE [c |-> x.c, rules |-> <<>>, vs |-> <<>>]
IdleR == [pc |-> "idle", src |-> "", seg |-> "", tag |-> "", start |-> 0, flk |-> 0, pm |-> 0, pt |-> 0, t |-> 0, saw |-> {}]
Absent == [c |-> "absent", rules |-> <<>>, mode |-> "none"]

SrcSeq == SetToSeq(Srcs)
Tick == IF Stamped THEN clock + 1 ELSE 0
Larger(a, b) == IF a < b THEN b ELSE a

Init ==
  /\ content = [s \in Srcs |-> Absent]
  /\ nver = [s \in Srcs |-> 0]
  /\ budget = MaxEnv
  /\ pending = <<>>
  /\ seen = [s \in Srcs |-> TRUE]
  /\ worker = [w \in Workers |-> IdleW]
  /\ stored = [s \in Srcs |-> "none"]
  /\ active = [s \in Srcs |-> None]
  /\ repoOp = "idle"
  /\ req = [r \in Reqs |-> IdleR]
  /\ cache = [x \in {} |-> ""]
  /\ clock = 0
  /\ W = [s \in Srcs |-> <<>>]
  /\ A = [s \in Srcs |-> <<Ack0>>]
  /\ St = [s \in Srcs |-> {}]
  /\ hiM = [s \in Srcs |-> -1]
  /\ bad = {}
  /\ actIdx = [s \in Srcs |-> 0]
  /\ hiT = [s \in Srcs |-> 0]
  /\ viol = {}

Busy(s) == \E w \in Workers : worker[w].pc = "fetched" /\ worker[w].src = s

(* every request in flight on s has seen the new active version of s *)
Saw(s, a) == [r \in Reqs |-> IF req[r].pc \in {"started", "looked"} /\ req[r].src = s
                             THEN [req[r] EXCEPT !.saw = @ \cup {a}] ELSE req[r]]

(* ------------------------------------------------------------ environment *)
(* a truncate-then-write of a file is two steps: "empty" (mode truncate), then the content  *)
(* (mode inplace); otherwise a file is replaced by renaming a complete file over it, an      *)
(* endpoint's document is swapped                                                            *)
Write(s, c, m) ==
  /\ budget > 0
  /\ CASE c = "valid"  -> /\ nver[s] < MaxVer
                          /\ IF m = "inplace" THEN PKind = "fs" /\ content[s].mode = "truncate" ELSE m = "atomic"
       [] c = "absent" -> content[s].c # "absent" /\ m = "atomic"
       [] c = "empty"  -> content[s].c # c /\ m = (IF PKind = "fs" THEN "truncate" ELSE "atomic")
       [] OTHER        -> content[s].c # c /\ m = "atomic"
  /\ LET k   == nver[s] + 1
         new == IF c = "valid" THEN [c |-> VerName(k), rules |-> VerRules(k), mode |-> m]
                ELSE [c |-> c, rules |-> <<>>, mode |-> m]
     IN /\ content' = [content EXCEPT ![s] = new]
        /\ nver' = IF c = "valid" THEN [nver EXCEPT ![s] = k] ELSE nver
        /\ W' = [W EXCEPT ![s] = Append(@, [c |-> new.c, rules |-> new.rules, mode |-> m, seq |-> Tick])]
  /\ clock' = Tick
  /\ budget' = budget - 1
  /\ seen' = [seen EXCEPT ![s] = FALSE]
  /\ pending' = IF PKind # "fs" THEN pending
                ELSE IF Mutant = "lost_final" /\ Busy(s) THEN pending      \* the notification is dropped
                ELSE Append(pending, s)
  /\ UNCHANGED <<worker, stored, active, repoOp, req, cache, A, St, hiM, bad, actIdx, hiT, viol>>

(* --------------------------------------------------------------- provider *)
(* notification (in order) or poll: read what the source holds NOW *)
Fetch(w, s) ==
  /\ worker[w].pc = "idle"
  /\ IF PKind = "fs" THEN pending # <<>> /\ s = Head(pending) /\ pending' = Tail(pending)
     ELSE ~Busy(s) /\ UNCHANGED pending                   \* one scheduler job per endpoint, singleton
  /\ worker' = [worker EXCEPT ![w] = [pc |-> "fetched", src |-> s, view |-> ViewOf(content[s]), vidx |-> Len(W[s])]]
  /\ UNCHANGED <<content, nver, budget, seen, stored, active, repoOp, req, cache, clock, W, A, St, hiM, bad,
                 actIdx, hiT, viol>>

(* torn read: the worker has read a complete version, the file is rewritten in place with a *)
(* version that appends rules, the worker reads on and gets the appended rules               *)
TearFetch(w) ==
  /\ worker[w].pc = "fetched"
  /\ LET s == worker[w].src IN
     /\ content[s].mode = "inplace" /\ P!IsValid(content[s].c)
     /\ worker[w].vidx < Len(W[s])
     /\ worker[w].view = Version(worker[w].view.c, worker[w].view.rules)      \* not torn already
     /\ P!IsValid(worker[w].view.c) /\ IsProperPrefix(worker[w].view.rules, content[s].rules)
     /\ worker' = [worker EXCEPT ![w].view = Torn(worker[w].view, content[s]), ![w].vidx = Len(W[s])]
  /\ UNCHANGED <<content, nver, budget, pending, seen, stored, active, repoOp, req, cache, clock, W, A, St, hiM, bad,
                 actIdx, hiT, viol>>

SetActive(s, a, idx) ==
  /\ active' = [active EXCEPT ![s] = a]
  /\ actIdx' = [actIdx EXCEPT ![s] = idx]
  /\ req' = Saw(s, a)

WorkerDone(w, s) ==
  /\ worker' = [worker EXCEPT ![w] = IdleW]
  /\ seen' = [seen EXCEPT ![s] = @ \/ worker[w].vidx = Len(W[s])]

(* the processor call decided by the reference provider of Provider.tla; the repository *)
(* replaces the version of the source in ONE step                                       *)
Apply(w) ==
  /\ worker[w].pc = "fetched" /\ repoOp = "idle"
  /\ LET s   == worker[w].src
         v   == worker[w].view
         res == IF Mutant = "remove_ignored" /\ v.c \in P!Gone THEN P!NoCalls(stored[s])
                ELSE P!RefSync(s, v.c, stored[s], FALSE, FALSE)
     IN /\ stored' = [stored EXCEPT ![s] = res.stored]
        /\ IF res.calls = <<>> THEN
              UNCHANGED <<active, actIdx, req, repoOp>> /\ WorkerDone(w, s)
           ELSE IF res.calls[1].cb = "OnDeleted" THEN
              SetActive(s, None, worker[w].vidx) /\ UNCHANGED repoOp /\ WorkerDone(w, s)
           ELSE IF Mutant = "delete_add" /\ res.calls[1].cb = "OnUpdated" THEN
              \* first half of a non-atomic update: the old rules are gone, the new not yet there
              SetActive(s, None, actIdx[s]) /\ repoOp' = s /\ UNCHANGED <<worker, seen>>
           ELSE
              SetActive(s, v, worker[w].vidx) /\ UNCHANGED repoOp /\ WorkerDone(w, s)
  /\ UNCHANGED <<content, nver, budget, pending, cache, clock, W, A, St, hiM, bad, hiT, viol>>

(* second half of the non-atomic update (mutant) *)
FinishUpdate(w) ==
  /\ repoOp # "idle" /\ worker[w].pc = "fetched" /\ worker[w].src = repoOp
  /\ SetActive(repoOp, worker[w].view, worker[w].vidx)
  /\ WorkerDone(w, repoOp)
  /\ repoOp' = "idle"
  /\ UNCHANGED <<content, nver, budget, pending, stored, cache, clock, W, A, St, hiM, bad, hiT, viol>>

(* --------------------------------------------------------------- requests *)
ReqStart(r, s, seg) ==
  /\ req[r].pc = "idle"
  /\ req' = [req EXCEPT ![r] = [IdleR EXCEPT !.pc = "started", !.src = s, !.seg = seg, !.start = Tick,
                                             !.flk = Len(A[s]), !.pm = hiM[s], !.pt = hiT[s],
                                             !.saw = {active[s]}]]
  /\ clock' = Tick
  /\ UNCHANGED <<content, nver, budget, pending, seen, worker, stored, active, repoOp, cache, W, A, St, hiM, bad,
                 actIdx, hiT, viol>>

ActiveSrcs == SelectSeq(SrcSeq, LAMBDA s : active[s] # None)
ActiveSets == [s \in {x \in Srcs : active[x] # None} |-> RuleSetOf(s, active[s])]

(* the lookup reads the repository atomically; the rule found then runs to the end *)
ReqLookup(r) ==
  /\ req[r].pc = "started"
  /\ LET key == <<req[r].src, req[r].seg>> IN
     \E tag \in IF Mutant = "lookup_cache" /\ key \in DOMAIN cache THEN {cache[key]}
                ELSE Probe(ActiveSrcs, ActiveSets, Req(req[r].src, req[r].seg), FALSE) :
        /\ req' = [req EXCEPT ![r].pc = "looked", ![r].tag = tag, ![r].t = actIdx[req[r].src]]
        /\ cache' = IF Mutant = "lookup_cache" THEN [x \in DOMAIN cache \cup {key} |-> IF x = key THEN tag ELSE cache[x]]
                    ELSE cache
  /\ UNCHANGED <<content, nver, budget, pending, seen, worker, stored, active, repoOp, clock, W, A, St, hiM, bad,
                 actIdx, hiT, viol>>

ReqEnd(r) ==
  /\ req[r].pc = "looked"
  /\ LET s  == req[r].src
         q  == [seg |-> req[r].seg, tag |-> req[r].tag]
         fl == A[s][req[r].flk]
         hi == Len(W[s])
         sq == [seg |-> req[r].seg, start |-> req[r].start, end |-> Tick, tag |-> req[r].tag]
         agree == /\ FloorOf(A[s], sq.start) = fl
                  /\ WrittenBefore(W[s], sq.end) = hi
                  /\ StairBefore(St[s], sq.start) = req[r].pm
                  /\ ReqReasons(s, W[s], A[s], St[s], sq) = ReqReasonsAt(s, W[s], fl, hi, req[r].pm, q)
     IN /\ bad' = bad \cup ReqReasonsAt(s, W[s], fl, hi, req[r].pm, q)
                      \cup (IF Stamped /\ ~agree THEN {"stamps-and-snapshots-disagree"} ELSE {})
        /\ hiM' = [hiM EXCEPT ![s] = Larger(@, MinCand(s, W[s], fl, hi, q))]
        /\ St' = IF Stamped THEN [St EXCEPT ![s] = StairAfter(s, W[s], A[s], St[s], sq)] ELSE St
        /\ hiT' = [hiT EXCEPT ![s] = Larger(@, req[r].t)]
        /\ viol' = viol
                   \cup (IF \E a \in req[r].saw : req[r].tag \in Resp(s, a, req[r].seg) THEN {} ELSE {"E1"})
                   \cup (IF req[r].t < req[r].pt THEN {"E4"} ELSE {})
  /\ req' = [req EXCEPT ![r] = [IdleR EXCEPT !.pc = "done"]]
  /\ clock' = Tick
  /\ UNCHANGED <<content, nver, budget, pending, seen, worker, stored, active, repoOp, cache, W, A, actIdx>>

(* --------------------------------------------------------------- observer *)
(* what the driver of the real service can establish without a clock: every notification   *)
(* queued so far has been handled (file sources: a sentinel file written afterwards is     *)
(* served) / a poll that started after the write has been processed (endpoints)            *)
NothingPending(s) ==
  /\ ~Busy(s) /\ repoOp # s
  /\ IF PKind = "fs" THEN \A i \in 1..Len(pending) : pending[i] # s ELSE seen[s]

Ack(s) ==
  /\ Len(W[s]) > A[s][Len(A[s])].idx
  /\ NothingPending(s)
  /\ \E tag \in Resp(s, active[s], "keep") :
       LET a == [idx |-> Len(W[s]), tag |-> tag, seq |-> Tick] IN
       /\ bad' = bad \cup AckReasons(s, W[s], A[s], a)
       /\ A' = [A EXCEPT ![s] = Append(@, AckFloor(s, W[s], A[s], a))]
  /\ clock' = Tick
  /\ UNCHANGED <<content, nver, budget, pending, seen, worker, stored, active, repoOp, req, cache, W, St, hiM,
                 actIdx, hiT, viol>>

Next ==
  \/ \E s \in Srcs, c \in EnvClasses, m \in {"atomic", "truncate", "inplace"} : Write(s, c, m)
  \/ \E w \in Workers, s \in Srcs : Fetch(w, s)
  \/ \E w \in Workers : Apply(w) \/ FinishUpdate(w) \/ TearFetch(w)
  \/ \E r \in Reqs, s \in Srcs, seg \in Segs : ReqStart(r, s, seg)
  \/ \E r \in Reqs : ReqLookup(r) \/ ReqEnd(r)
  \/ \E s \in Srcs : Ack(s)

Fairness == \A w \in Workers : WF_vars(Apply(w)) /\ WF_vars(FinishUpdate(w)) /\ \A s \in Srcs : WF_vars(Fetch(w, s))

Spec == Init /\ [][Next]_vars /\ Fairness

(* ------------------------------------------------------------- properties *)
(* E1: the response is the one of a version that was active at some instant of the request *)
InvE1 == "E1" \notin viol

(* E2: while a rule set is replaced by another version the source is never without rules *)
InvE2 == repoOp # "idle" => active[repoOp] # None

(* E3: nothing pending => latest valid content loaded, removed / emptied unloaded ... *)
InvE3 == \A s \in Srcs : NothingPending(s) => P!Converged(content[s].c, active[s].c, FALSE)

(* ... and unreadable content leaves the active version alone *)
InvalidKeeps ==
  [][\A w \in Workers : (worker[w].pc = "fetched" /\ worker[w].view.c \in P!Unreadable /\ worker'[w].pc = "idle")
                           => active'[worker[w].src] = active[worker[w].src]]_vars

(* E4: no regression between requests ordered in real time *)
InvE4 == "E4" \notin viol

(* the contract of HeimdallOps never rejects what the composition does *)
InvContract == bad = {}

(* the single comparisons of the contract (each negative control names the one it must trip) *)
CtrE1 == "e2e-version-older-than-acknowledged" \notin bad
CtrE2 == "e2e-rule-missing-during-update" \notin bad
CtrE3Latest  == "e2e-latest-version-not-loaded" \notin bad
CtrE3Removed == "e2e-removed-source-still-served" \notin bad
CtrE3Invalid == "e2e-invalid-content-changed-the-active-version" \notin bad
CtrE4 == "e2e-version-regression" \notin bad

InvTypes ==
  /\ \A s \in Srcs : stored[s] = active[s].c \/ repoOp = s
  /\ budget \in 0..MaxEnv

(* liveness: once the environment is quiet every source converges *)
AllConverged == \A s \in Srcs : P!Converged(content[s].c, active[s].c, FALSE)
Converges == <>[]AllConverged
=============================================================================
