----------------------------- MODULE EncodingMC -----------------------------
(***************************************************************************)
(* Design run for Encoding: starting from the normal form of every path of *)
(* a small universe, the spelling is changed one step at a time (encode /  *)
(* decode one unreserved octet, flip the hex case of one encoded octet);   *)
(* in every reachable spelling the expected behaviour equals that of the   *)
(* normal form, Norm is idempotent and preserves the decoded forms.        *)
(* Mutants: "case_sensitive" (only upper-case %2F counts as encoded slash) *)
(* and "raw_lookup" (matching on the spelling instead of the decoded form) *)
(* are refuted.                                                            *)
(***************************************************************************)
EXTENDS Encoding, TLC

CONSTANT Mutant

O(c) == [c |-> c, enc |-> c \notin Unreserved /\ c \notin RawOnly, up |-> TRUE]

Segs == {<<O("f"), O("o")>>, <<O("b")>>, <<O("f"), O("/"), O("o")>>, <<O("["), O("x")>>, <<O("~")>>,
         <<O("a"), O("+"), O("b")>>, <<O("%"), O("4"), O("1")>>}
PathsN == {<<a>> : a \in Segs} \cup {<<a, b>> : a \in Segs, b \in Segs}

Lit(v) == [t |-> "lit", v |-> v, n |-> ""]
One(n) == [t |-> "one", v |-> "", n |-> n]
Free(n) == [t |-> "free", v |-> "", n |-> n]

MkRule(id, slash, expr) ==
  [id |-> id, src |-> "s", bt |-> TRUE, slash |-> slash, scheme |-> "", methods |-> <<>>, hosts |-> <<>>,
   routes |-> <<[expr |-> expr, params |-> <<>>]>>]

Rules == <<MkRule("lit-off", "off", <<Lit("fo"), Lit("b")>>),
           MkRule("one-nodecode", "no_decode", <<Lit("fo"), One("x")>>),
           MkRule("free-on", "on", <<One("y"), Free("rest")>>),
           MkRule("one-off", "", <<One("z")>>)>>

VARIABLE p

Init == p \in PathsN

Toggle(i, j) == p' = [p EXCEPT ![i][j].enc = ~p[i][j].enc]
Flip(i, j) == p' = [p EXCEPT ![i][j].up = ~p[i][j].up]

Next == \E i \in 1..Len(p) : \E j \in 1..Len(p[i]) :
          \/ IsUnreserved(p[i][j]) /\ Toggle(i, j)
          \/ p[i][j].enc /\ Flip(i, j)

Spec == Init /\ [][Next]_p

Req(sp) == [method |-> "GET", scheme |-> "http", host |-> "h", path |-> <<>>, spelling |-> sp]

(* what a (possibly wrong) implementation computes *)
Spell(o) == IF o.enc THEN (IF o.up THEN "%UP" ELSE "%lo") \o o.c ELSE o.c
RECURSIVE SpellFrom(_, _)
SpellFrom(seg, i) == IF i > Len(seg) THEN "" ELSE Spell(seg[i]) \o SpellFrom(seg, i + 1)
RawPath(sp) == [i \in 1..Len(sp) |-> SpellFrom(sp[i], 1)]

MExpected(sp) ==
  CASE Mutant = "case_sensitive" ->
         LET e == Expected(Rules, Req(sp), TRUE)
             upSlash == \E i \in 1..Len(sp) : \E j \in 1..Len(sp[i]) : IsSlash(sp[i][j]) /\ sp[i][j].up
         IN {[x EXCEPT !.reject = x.reject /\ upSlash] : x \in e}
    [] Mutant = "raw_lookup" ->
         LET q == [Req(sp) EXCEPT !.path = RawPath(sp)] IN
         {[rule |-> IF o = Fallthrough THEN "default" ELSE o, setting |-> "", reject |-> FALSE] : o \in Lookup(Rules, q)}
    [] OTHER -> Expected(Rules, Req(sp), TRUE)

SpellingIndependent == MExpected(p) = MExpected(Norm(p))
NormIdempotent == Norm(Norm(p)) = Norm(p)
NormPreservesDecoded == KeepPath(Norm(p)) = KeepPath(p) /\ OnPath(Norm(p)) = OnPath(p)
                        /\ HasEncSlash(Norm(p)) = HasEncSlash(p)
AlwaysWellFormed == WellFormed(p)
(* with setting off an encoded slash is never accepted *)
OffRejects == \A x \in Expected(Rules, Req(p), TRUE) :
                 (x.setting = "off" /\ HasEncSlash(p)) => x.reject
=============================================================================
