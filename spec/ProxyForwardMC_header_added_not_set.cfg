SPECIFICATION Spec
CONSTANTS MaxTail = 2
  Mutant = "header_added_not_set"
INVARIANTS InvProperty InvStripThenAdd InvNoRecoding InvPipelineWins InvForwarded
CHECK_DEADLOCK FALSE
