SPECIFICATION Spec
CONSTANTS
  r1 = r1
  r2 = r2
  PKind = "poll1"
  Mutant = "remove_ignored"
  Srcs <- MCOneSrc
  Reqs <- MCReqs
  Segs <- MCSegs
  EnvClasses <- MCAllClasses
  MaxEnv = 2
  MaxVer = 3
  Stamped = FALSE
SYMMETRY ReqSymmetry
INVARIANTS CtrE3Removed
CHECK_DEADLOCK FALSE
