SPECIFICATION Spec
CONSTANTS
  Files <- MCFiles
  Listeners <- MCListeners
  Reg <- MCReg
  MaxWrites = 2
  MaxErrors = 1
  Variant = "first_listener_only"
INVARIANTS NotifiedOfLast

CHECK_DEADLOCK FALSE
