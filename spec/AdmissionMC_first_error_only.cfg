SPECIFICATION Spec
CONSTANTS Mutant = "first_error_only" MaxRules = 4
INVARIANTS AnswerIsVerdict
CHECK_DEADLOCK FALSE
