SPECIFICATION Spec
CONSTANTS Backend = "noexpiry"
  Mutant = "no_guard"
  Keys = {"k1"}
INVARIANTS InvStoredOnlyIfFresh
CHECK_DEADLOCK FALSE
