SPECIFICATION Spec
CONSTANTS Backend = "refuse"
  Mutant = "no_guard"
  Keys = {"k1"}
INVARIANTS InvNoHitAfterExpiry InvEntryWithinValidity InvEntryLifetime InvZeroTTL InvStoredOnlyIfFresh InvTokenNotExpired
CHECK_DEADLOCK FALSE
