----------------------------- MODULE SignerOps ------------------------------
(***************************************************************************)
(* Reference operators of the signer specification (C16), shared by the    *)
(* design specification Signer.tla (invariants over all interleavings) and *)
(* by SignerTrace.tla (judging executions of the real code).               *)
(*                                                                         *)
(* A key-store version is [valid, kid, alg, algs, key, pub]; see Signer.   *)
(***************************************************************************)
EXTENDS Naturals, Integers, Sequences, FiniteSets

TokenOfVersion(tok, v) ==
  v.valid /\ tok.kid = v.kid /\ tok.alg \in v.algs /\ tok.key = v.key

SetOfVersion(set, v) == v.valid /\ set = v.pub

(* hist: the sequence of versions that were active, in order; a request    *)
(* that started when Len(hist) = lo and ended when Len(hist) = hi          *)
(* overlapped exactly the versions hist[lo..hi].                           *)
ActiveIn(hist, lo, hi) == {hist[i] : i \in lo..hi}

(* Claims.  Sign() merges the custom claims into an empty map and then     *)
(* writes the system claims, so the system claims win.  jti is written as  *)
(* well but the property does not mention it: left open.                   *)
SystemClaims == {"sub", "iss", "iat", "nbf", "exp"}

Overlay(f, g) == [k \in DOMAIN f \cup DOMAIN g |-> IF k \in DOMAIN g THEN g[k] ELSE f[k]]

System(sub, iss, iat, expBase, ttl) ==
  [sub |-> sub, iss |-> iss, iat |-> iat, nbf |-> iat, exp |-> expBase + ttl]

SignClaims(custom, sub, iss, now, ttl) == Overlay(custom, System(sub, iss, now, now, ttl))

(* the claims rule of the property; lo..hi is the window of issue times    *)
ClaimsOK(claims, sub, iss, ttl, lo, hi) ==
  /\ SystemClaims \subseteq DOMAIN claims
  /\ claims.sub = sub
  /\ claims.iss = iss
  /\ claims.iat = claims.nbf
  /\ claims.exp - claims.iat = ttl
  /\ claims.iat \in lo..hi

(* private JWK members that must never show up on the JWKS endpoint        *)
PrivateParams == {"d", "p", "q", "dp", "dq", "qi", "k", "oth"}

=============================================================================
