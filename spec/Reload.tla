------------------------------- MODULE Reload -------------------------------
(***************************************************************************)
(* C19 - no reloadable or remote input can crash the process.              *)
(*                                                                         *)
(* A deliberately small lifecycle automaton: the process is alive, every   *)
(* entry point through which bytes reach it at run time (key-store and     *)
(* trust-store reloads, rule sets from providers, remote responses,        *)
(* requests) holds a loaded state.  Feeding an input is either accepted    *)
(* (the state becomes the new version) or rejected (the state is kept);    *)
(* a request gets a response.  There is no crash action: a panic that      *)
(* escapes a reload / provider callable kills the process and is a         *)
(* violation; on request goroutines heimdall recovers panics by design,    *)
(* the observable contract there is "a response (or a closed connection)   *)
(* and the next request is still served".                                  *)
(*                                                                         *)
(* The universal quantifier of the property is over bytes, which TLA+      *)
(* cannot enumerate: the input space is explored by the concretisation     *)
(* layer (harness/c19); this module contributes the inventory of entry     *)
(* points, the class table and the judgement of every recorded outcome.    *)
(***************************************************************************)
EXTENDS Naturals, Sequences, FiniteSets, TLC

(* entry points: callables the background goroutines call, and the request path *)
ReloadEntries == {"signer", "httpsig", "tls", "truststore", "ruleset", "ruleset-fs", "ruleset-http", "k8s-status",
                  "redis-credentials"}
RequestEntries == {"jwks", "introspection", "authorizer", "contextualizer", "rawrequest", "extractors"}

(* Input classes (by construction of the input, never by parsing it in the harness).         *)
(* must: "accept" - a valid fixture; "reject" - certainly unusable; "open" - either is fine. *)
MustReject == {
  "empty", "whitespace", "pem-zero-blocks", "pem-certs-only", "pem-unsupported-block",   \* no usable key
  "json-proper-prefix", "json-empty", "json-wrong-type",                                   \* remote responses
  "raw-norule"                                            \* a request no rule applies to, whatever its body is like
}
MustAccept == {"valid"}

Must(class) ==
  CASE class \in MustAccept -> "accept"
    [] class \in MustReject -> "reject"
    [] OTHER -> "open"     \* truncation-k, type-confusion, unsupported-key, huge-number, garbage, ...

FeedOutcomes == {"accepted", "rejected", "panicked"}

(* judgement of one fed input; kept: the previously loaded state answers as before *)
(* alive: the background goroutine the input went through still reacts to the next valid change *)
FeedReasons(class, outcome, kept, alive) ==
  (IF outcome = "panicked" THEN {"panic-escaped-reload-callable"} ELSE {})
  \cup (IF ~alive THEN {"background-watcher-stopped"} ELSE {})
  \cup (IF outcome = "rejected" /\ ~kept THEN {"state-lost-on-rejected-input"} ELSE {})
  \cup (IF outcome = "rejected" /\ Must(class) = "accept" THEN {"valid-input-rejected"} ELSE {})
  \cup (IF outcome = "accepted" /\ Must(class) = "reject" THEN {"unusable-input-accepted"} ELSE {})
  \cup (IF outcome \notin FeedOutcomes THEN {"unknown-outcome"} ELSE {})

IsSuccess(status) == status >= 200 /\ status < 300

(* judgement of one request: outcome "response" (with status) or "closed"; alive: the next   *)
(* well-formed request was served as before                                                  *)
RequestReasons(class, outcome, status, alive) ==
  (IF ~alive THEN {"service-dead-after-request"} ELSE {})
  \cup (IF outcome \notin {"response", "closed"}
          /\ ~(class = "raw-incomplete" /\ outcome = "waiting")   \* the server waits for the rest of the request
          THEN {"no-response-and-not-closed"} ELSE {})
  \cup (IF outcome = "response" /\ Must(class) = "reject" /\ IsSuccess(status)
          THEN {"unusable-remote-input-answered-with-success"} ELSE {})
  \cup (IF outcome = "response" /\ Must(class) = "accept" /\ ~IsSuccess(status)
          THEN {"valid-input-answered-with-error"} ELSE {})

(***************************************************************************)
(* The automaton.                                                          *)
(***************************************************************************)
CONSTANTS Entries, Classes, Mutant

VARIABLES alive, loaded, last

vars == <<alive, loaded, last>>

NoFeed == [kind |-> "none", entry |-> "", class |-> "", outcome |-> "", before |-> 0, after |-> 0]

Init == alive = TRUE /\ loaded = [e \in Entries |-> 0] /\ last = NoFeed

Accept(e, c) ==
  /\ Must(c) # "reject"
  /\ loaded' = [loaded EXCEPT ![e] = @ + 1]
  /\ last' = [kind |-> "feed", entry |-> e, class |-> c, outcome |-> "accepted",
              before |-> loaded[e], after |-> loaded[e] + 1]
  /\ UNCHANGED alive

Reject(e, c) ==
  /\ Must(c) # "accept"
  /\ loaded' = IF Mutant = "reject_clears_state" THEN [loaded EXCEPT ![e] = 0] ELSE loaded
  /\ last' = [kind |-> "feed", entry |-> e, class |-> c, outcome |-> "rejected",
              before |-> loaded[e], after |-> loaded'[e]]
  /\ UNCHANGED alive

(* only in the mutant: a feed may crash the process *)
Crash(e, c) ==
  /\ Mutant = "feed_may_crash"
  /\ alive' = FALSE
  /\ last' = [kind |-> "feed", entry |-> e, class |-> c, outcome |-> "panicked",
              before |-> loaded[e], after |-> loaded[e]]
  /\ UNCHANGED loaded

Feed(e, c) == alive /\ loaded[e] < 3 /\ (Accept(e, c) \/ Reject(e, c) \/ Crash(e, c))

Request(c) ==
  /\ alive
  /\ last' = [kind |-> "request", entry |-> "", class |-> c, outcome |-> "response",
              before |-> 0, after |-> 0]
  /\ UNCHANGED <<alive, loaded>>

Next == (\E e \in Entries, c \in Classes : Feed(e, c)) \/ (\E c \in Classes : Request(c))

Spec == Init /\ [][Next]_vars

InvAlive == alive
InvRejectKeeps == (last.kind = "feed" /\ last.outcome = "rejected") => last.after = last.before
InvJudged == last.kind = "feed" =>
               FeedReasons(last.class, last.outcome, last.after = last.before \/ last.outcome = "accepted", alive) = {}
InvTable == \A c \in Classes : Must(c) \in {"accept", "reject", "open"}
=============================================================================
