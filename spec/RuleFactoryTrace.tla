--------------------------- MODULE RuleFactoryTrace ---------------------------
(***************************************************************************)
(* Trace validation for C14: every line is one rule definition loaded      *)
(* through the real rule-set processor of an assembled service with the    *)
(* given default rule, plus what was observed: the load result, the        *)
(* mechanisms executed for a request on which everything succeeds and for  *)
(* one on which every authenticator fails, and whether a failed match of   *)
(* the rule backtracked to a less specific rule; and the answers of the    *)
(* service's admission webhook (module Admission) for rule sets made of    *)
(* the rule: alone under the own class, alone under another class, and     *)
(* after a valid rule together with a copy of itself.  C14 speaks about    *)
(* loading only: what the webhook answers differently from the             *)
(* specification is reported as a divergence of the model (div), not as a  *)
(* violation of the property (bad).                                        *)
(***************************************************************************)
EXTENDS RuleFactory, Admission, Json, IOUtils, TLC, SequencesExt

Trace == ndJsonDeserialize(IOEnv.VERIF_TRACE)
OutFile == IOEnv.VERIF_OUT

VARIABLES l, bad, nontrivial, div

vars == <<l, bad, nontrivial, div>>

Names(steps) == [i \in 1..Len(steps) |-> steps[i].n]

Violations(c) ==
  LET valid == Valid(c.def, c.rule, c.mode)
      o == c.obs
      \* a rule set holding this rule and a well-formed one is accepted iff this rule is
      pair == IF "pair_loaded" \in DOMAIN o /\ o.pair_loaded # valid
              THEN {IF o.pair_loaded THEN "rule-set-with-a-malformed-rule-accepted" ELSE "rule-set-of-valid-rules-rejected"}
              ELSE {}
  IN IF valid # o.loaded
     THEN {IF o.loaded THEN "malformed-rule-accepted" ELSE "valid-rule-rejected"} \cup pair
     ELSE IF ~valid THEN pair
     ELSE LET e == Effective(c.def, c.rule)
              okExec == <<e.authn[1].n>> \o Names(e.handlers) \o Names(e.finalizers)
              \* the error handler that answers: the first of the effective ones whose condition holds; an
              \* own handler may carry a condition that does not hold for this failure (cond), the default
              \* rule's handlers are unconditional - and they are not consulted when the rule has own ones
              ownEh == SelectSeq(c.rule.on_error, LAMBDA h : h.k = "e")
              answering == IF Len(ownEh) # 0 \/ ~c.def.present
                           THEN LET app == SelectSeq(ownEh, LAMBDA h : ~h.cond) IN
                                IF Len(app) > 0 THEN <<app[1].step.n>> ELSE <<>>
                           ELSE IF Len(e.eh) > 0 THEN <<e.eh[1].n>> ELSE <<>>
              failExec == <<e.authn[1].n>> \o answering
          IN (IF o.exec_ok # okExec THEN {"effective-pipeline-differs"} ELSE {})
             \cup (IF o.exec_fail # failExec THEN {"effective-error-pipeline-differs"} ELSE {})
             \cup (IF o.bt # EffectiveBt(c.def, c.rule) THEN {"backtracking-setting-differs"} ELSE {})
             \cup (IF o.bt_later # EffectiveBt(c.def, c.rule) THEN {"backtracking-setting-differs-later"} ELSE {})
             \cup (IF ~o.positive_ok THEN {"valid-pipeline-not-positive"} ELSE {})
             \cup pair

AdmissionViolations(c) ==
  LET valid == Valid(c.def, c.rule, c.mode)
      a == c.obs.admit
  IN AnswerProblems(a.own, "k", "k", <<valid>>, "admission")
     \cup AnswerProblems(a.other, "k", "other", <<valid>>, "admission-other-class")
     \cup AnswerProblems(a.trio, "k", "k", <<TRUE, valid, valid>>, "admission-of-three")

NonTrivial(c) == c.def.present \/ ~Valid(c.def, c.rule, c.mode)

Init == l = 1 /\ bad = {} /\ nontrivial = 0 /\ div = {}

Next ==
  /\ l <= Len(Trace)
  /\ LET c == Trace[l] v == Violations(c) a == AdmissionViolations(c) IN
       /\ bad' = IF v = {} THEN bad
                 ELSE bad \cup {[line |-> l, id |-> c.id, reasons |-> SetToSeq(v),
                                 valid |-> Valid(c.def, c.rule, c.mode), bt |-> EffectiveBt(c.def, c.rule)]}
       /\ nontrivial' = IF NonTrivial(c) THEN nontrivial + 1 ELSE nontrivial
       /\ div' = IF a = {} THEN div ELSE div \cup {[line |-> l, id |-> c.id, reasons |-> SetToSeq(a)]}
  /\ l' = l + 1

Spec == Init /\ [][Next]_vars

Export == IF l = Len(Trace) + 1 THEN TLCSet(1, bad) /\ TLCSet(2, nontrivial) /\ TLCSet(3, div) ELSE TRUE

Done ==
  /\ TLCGet("stats").diameter - 1 = Len(Trace)
  /\ JsonSerialize(OutFile, [lines |-> Len(Trace), nontrivial |-> TLCGet(2), bad |-> SetToSeq(TLCGet(1)),
                             diverged |-> SetToSeq(TLCGet(3))])
=============================================================================
