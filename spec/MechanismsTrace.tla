--------------------------- MODULE MechanismsTrace --------------------------
(***************************************************************************)
(* Trace validation for C17.  The driver obtains, for every mechanism type *)
(* of the five categories, the prototype and rule-level variants from the  *)
(* real mechanisms.MechanismFactory of an assembled service, following the *)
(* schedules of MechanismsGen, and records                                 *)
(*                                                                         *)
(*   type    the catalogue configuration, the overrides and the reference  *)
(*           configurations, flattened to path -> value                    *)
(*   ref     behaviour of a prototype created (in a second, pristine       *)
(*           service) from the reference configuration number k            *)
(*   create  CreateVariant: object name and override number k (0 = empty)  *)
(*   exec    Execute on a live object under a behavioural probe: what the  *)
(*           object did (subject, requests received by the test server,    *)
(*           headers / cookies for the upstream, error kind, cache TTLs)   *)
(*   snap    after every action the deep structural fingerprint of every   *)
(*           live object                                                   *)
(*   race    a data race reported by the race detector while the objects   *)
(*           were executed by 8 goroutines                                 *)
(*                                                                         *)
(* Judged with the operators of MechanismsOps:                              *)
(*   Frozen  the fingerprint of an existing object never changes           *)
(*   Local   behaviour(object with override k) = behaviour of the          *)
(*           catalogue configuration overlaid by override k only, where    *)
(*           the reference configuration is checked to be                  *)
(*           Overlay(catalogue, override k)                                *)
(*   NoRace  no race event                                                 *)
(***************************************************************************)
EXTENDS MechanismsOps, TLC, Json, IOUtils, SequencesExt, FiniteSetsExt

Trace == ndJsonDeserialize(IOEnv.VERIF_TRACE)
OutFile == IOEnv.VERIF_OUT

VARIABLES l, bad, div, nontrivial, fps, refs

tvars == <<l, bad, div, nontrivial, fps, refs>>

(* a flattened configuration <<<<path, value>>, ...>> as a function        *)
AsMap(pairs) == [p \in {pairs[i][1] : i \in DOMAIN pairs} |->
                   (CHOOSE i \in DOMAIN pairs : pairs[i][1] = p) \* first occurrence (paths are unique)
                ]
Conf(pairs) == [p \in DOMAIN AsMap(pairs) |-> pairs[AsMap(pairs)[p]][2]]

(* the reference configuration number k must be the catalogue              *)
(* configuration overlaid by override k - the specification's Overlay      *)
RefsOK(e) == \A k \in DOMAIN e.ovr : Conf(e.ref[k]) = Overlay(Conf(e.cat), Conf(e.ovr[k]))

(* the fingerprints of a snap event as a map object -> fingerprint         *)
SnapMap(e) == [n \in {e.objs[i][1] : i \in DOMAIN e.objs} |->
                 e.objs[CHOOSE i \in DOMAIN e.objs : e.objs[i][1] = n][2]]

(* the behaviour function of a type, as far as the trace knows it: the     *)
(* reference behaviours are indexed by the override number, and RefsOK     *)
(* ties that number to Overlay(catalogue, override)                        *)
RefBehaviour(k) == refs[k]

Rej(line, id, reasons, objsChanged) == [line |-> line, id |-> id, reasons |-> reasons, objs |-> objsChanged]

TraceInit == l = 1 /\ bad = {} /\ div = {} /\ nontrivial = 0 /\ fps = <<>> /\ refs = <<>>

TraceNext ==
  /\ l <= Len(Trace)
  /\ LET e == Trace[l] IN
     CASE e.ev = "type" ->
            /\ fps' = <<>> /\ refs' = <<>>
            /\ div' = IF RefsOK(e) THEN div ELSE div \cup {[line |-> l, id |-> e.type, why |-> "reference-config-is-not-the-overlay"]}
            /\ UNCHANGED <<bad, nontrivial>>
       [] e.ev = "ref" ->
            /\ refs' = (e.k :> e.b) @@ refs
            /\ UNCHANGED <<bad, div, nontrivial, fps>>
       [] e.ev = "create" ->
            /\ div' = IF e.err # "" THEN div \cup {[line |-> l, id |-> e.obj, why |-> "variant-not-created"]} ELSE div
            /\ UNCHANGED <<bad, nontrivial, fps, refs>>
       [] e.ev = "exec" ->
            /\ IF e.k \notin DOMAIN refs
               THEN /\ div' = div \cup {[line |-> l, id |-> e.obj, why |-> "no-reference-behaviour"]}
                    /\ bad' = bad
               ELSE /\ div' = div
                    /\ bad' = IF e.b = RefBehaviour(e.k) THEN bad
                              ELSE bad \cup {Rej(l, e.obj, <<"local">>, <<e.obj>>)}
            /\ nontrivial' = IF e.k # 0 THEN nontrivial + 1 ELSE nontrivial
            /\ UNCHANGED <<fps, refs>>
       [] e.ev = "snap" ->
            LET now == SnapMap(e) IN
            /\ bad' = IF FrozenBetween(fps, now) THEN bad
                      ELSE bad \cup {Rej(l, e.target, <<"frozen-after-" \o e.after>>,
                                         SetToSeq(ChangedBetween(fps, now)))}
            /\ fps' = Overlay(fps, now)
            /\ nontrivial' = IF Len(e.objs) > 1 THEN nontrivial + 1 ELSE nontrivial
            /\ UNCHANGED <<div, refs>>
       [] e.ev = "race" ->
            /\ bad' = bad \cup {Rej(l, e.type, <<"data-race">>, <<>>)}
            /\ UNCHANGED <<div, nontrivial, fps, refs>>
       [] OTHER -> UNCHANGED <<bad, div, nontrivial, fps, refs>>
  /\ l' = l + 1

TraceSpec == TraceInit /\ [][TraceNext]_tvars

Done ==
  /\ TLCGet("stats").diameter - 1 = Len(Trace)
  /\ JsonSerialize(OutFile, [lines |-> Len(Trace), nontrivial |-> TLCGet(3),
                             bad |-> SetToSeq(TLCGet(1)), div |-> SetToSeq(TLCGet(2))])

Export == IF l = Len(Trace) + 1
          THEN TLCSet(1, bad) /\ TLCSet(2, div) /\ TLCSet(3, nontrivial)
          ELSE TRUE
=============================================================================
