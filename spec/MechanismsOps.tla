---------------------------- MODULE MechanismsOps ---------------------------
(***************************************************************************)
(* Reference operators of the mechanism specification (C17), shared by the *)
(* design specification Mechanisms.tla and by MechanismsTrace.tla.         *)
(***************************************************************************)
EXTENDS Naturals, Sequences, FiniteSets

(* configuration overlay: leaf-wise, the override wins                     *)
Overlay(f, g) == [k \in DOMAIN f \cup DOMAIN g |-> IF k \in DOMAIN g THEN g[k] ELSE f[k]]

(* Frozen between two fingerprint maps (object -> fingerprint): every      *)
(* object present in both has the same fingerprint; ChangedBetween names   *)
(* the offenders                                                           *)
ChangedBetween(before, after) == {o \in DOMAIN before \cap DOMAIN after : after[o] # before[o]}
FrozenBetween(before, after) == ChangedBetween(before, after) = {}

(* Local: an object created from catalogue configuration cat with override *)
(* ovr behaves as B(Overlay(cat, ovr)) for the behaviour function B of its *)
(* mechanism type - whatever else happened                                 *)
LocalFor(behaviour, B(_), cat, ovr) == behaviour = B(Overlay(cat, ovr))
=============================================================================
