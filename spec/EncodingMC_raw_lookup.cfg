SPECIFICATION Spec
CONSTANT Mutant = "raw_lookup"
INVARIANTS SpellingIndependent NormIdempotent NormPreservesDecoded AlwaysWellFormed OffRejects
CHECK_DEADLOCK FALSE
