SPECIFICATION Spec
CONSTANTS Writers = {1, 2}
  Readers = {11, 12}
  OpsPerWriter = 2
  Lookups = 2
  Mutant = "no_kmu"
INVARIANTS InvLocks InvPublishedImmutable InvAtomicReads InvNoLostUpdate InvSearchUnderLock
CHECK_DEADLOCK TRUE
