---------------------------- MODULE PipelineTrace ----------------------------
(***************************************************************************)
(* Trace validation for the pipeline test bed.  Every line of the trace is *)
(* one fully logged case executed on the real assembled service: the       *)
(* concrete pipeline (all stages, flags, resolved conditions, scripted     *)
(* outcomes) and the observation.  The single action consumes one line,    *)
(* folds Pipeline!Step over the case (Run) and compares.                   *)
(*                                                                         *)
(* Prop selects which property's oracle decides "violation":               *)
(*   C01  observed positive / upstream hit although the specification says *)
(*        negative                                                         *)
(*   C04  authenticators executed / subject differ from the specification  *)
(*   C12  status class / Location / WWW-Authenticate of a failure differ   *)
(* Every other difference between Expected and the observation is a        *)
(* divergence of model and code, reported but not a violation.             *)
(***************************************************************************)
EXTENDS Pipeline, Json, IOUtils, TLC, SequencesExt

Trace == ndJsonDeserialize(IOEnv.VERIF_TRACE)
OutFile == IOEnv.VERIF_OUT
Prop == IOEnv.VERIF_PROP

VARIABLES l, bad, div, nontrivial

vars == <<l, bad, div, nontrivial>>

AuthnNames(c) == {c.authn[i].n : i \in 1..Len(c.authn)}
AuthnExec(c, exec) == SelectSeq(exec, LAMBDA n : n \in AuthnNames(c))

SupportedCT == {"text/html", "application/json", "text/plain", "application/xml"}

(* content types acceptable for the Accept header classes the driver uses *)
AcceptableCT(a) ==
  CASE a \in {"", "*/*"} -> SupportedCT
    [] a \in SupportedCT -> {a}
    [] a = "application/xml;q=0.5, application/json;q=0.9" -> {"application/json"}
    [] a = "text/*" -> {"text/html", "text/plain"}
    [] OTHER -> {}

Violations(c, exp) ==
  LET o == c.obs IN
  CASE Prop = "C01" ->
         (IF o.positive /\ ~exp.positive THEN {"positive-but-spec-negative"} ELSE {})
         \cup (IF o.hits > 0 /\ ~exp.positive THEN {"upstream-hit-but-spec-negative"} ELSE {})
    [] Prop = "C04" ->
         (IF AuthnExec(c, o.exec) # AuthnExec(c, exp.exec) THEN {"authenticators-consulted-differ"} ELSE {})
         \cup (IF o.positive /\ exp.positive /\ o.subject # exp.subject THEN {"subject-differs"} ELSE {})
         \cup (IF o.positive /\ ~exp.positive THEN {"authenticated-but-spec-fails"} ELSE {})
    [] Prop = "C12" ->
         IF exp.positive \/ o.positive THEN
            (IF o.positive /\ ~exp.positive THEN {"failure-answered-with-success"} ELSE {})
         ELSE IF exp.panicked /\ c.entry = "envoy" THEN
            (IF o.rpcerr THEN {} ELSE {"panic-not-an-rpc-error"})
         ELSE
            (IF o.status # exp.status THEN {"status-differs"} ELSE {})
            \cup (IF o.location # exp.location THEN {"location-header-differs"} ELSE {})
            \cup (IF exp.www /\ ~o.www THEN {"www-authenticate-missing"} ELSE {})
            \cup (IF IsSuccessStatus(o.status) THEN {"failure-with-success-status"} ELSE {})
            \cup (IF o.body /\ ~c.verbose THEN {"body-without-verbose"} ELSE {})
            \cup (IF o.body /\ c.verbose /\ ~(c.entry = "envoy" /\ AcceptableCT(c.accept) = {})
                      /\ o.ct \notin AcceptableCT(c.accept)
                   THEN {"content-type-not-negotiated"} ELSE {})

Diverges(c, exp) ==
  LET o == c.obs IN
  \/ o.positive # exp.positive
  \/ o.hits # exp.hits
  \/ o.exec # exp.exec
  \/ (~exp.positive /\ ~o.positive /\ ~(exp.panicked /\ c.entry = "envoy") /\ o.status # exp.status)

(* non-trivial: some step fails, is skipped, panics or no rule applies *)
NonTrivial(c, exp) == ~exp.positive \/ Len(exp.exec) # Len(c.authn) + Len(c.handlers) + Len(c.finalizers)

Init == l = 1 /\ bad = {} /\ div = {} /\ nontrivial = 0

Next ==
  /\ l <= Len(Trace)
  /\ LET c == Trace[l]
         exp == Expected(c, c.overrides)
         v == Violations(c, exp)
     IN /\ bad' = IF v = {} THEN bad ELSE bad \cup {[line |-> l, id |-> c.id, reasons |-> SetToSeq(v), expected |-> exp]}
        /\ div' = IF Diverges(c, exp) THEN div \cup {[line |-> l, id |-> c.id, expected |-> exp]} ELSE div
        /\ nontrivial' = IF NonTrivial(c, exp) THEN nontrivial + 1 ELSE nontrivial
  /\ l' = l + 1

Spec == Init /\ [][Next]_vars

Done ==
  /\ TLCGet("stats").diameter - 1 = Len(Trace)
  /\ JsonSerialize(OutFile, [lines |-> Len(Trace), nontrivial |-> TLCGet(3),
                             bad |-> SetToSeq(TLCGet(1)), div |-> SetToSeq(TLCGet(2))])

(* the verdict sets are exported through TLC registers at the last state *)
Export == IF l = Len(Trace) + 1
          THEN TLCSet(1, bad) /\ TLCSet(2, div) /\ TLCSet(3, nontrivial)
          ELSE TRUE
=============================================================================
