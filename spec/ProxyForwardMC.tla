---------------------------- MODULE ProxyForwardMC ----------------------------
(***************************************************************************)
(* Design run for ProxyForward.  Two phases share one state machine:       *)
(*   phase "path": every original path  /a|%61  ++ tail (tail up to        *)
(*     MaxTail tokens over separator, plain / encoded unreserved, %5B,     *)
(*     %25, %2F, %3B, "!"), every strip prefix (none, equal spelling,      *)
(*     other spelling, no prefix), add prefix (none, plain, with an        *)
(*     encoded octet) and allow_encoded_slashes setting, taken through     *)
(*     CreateURL -> Rewrite -> Send as token operations;                   *)
(*   phase "rest": queries (with parameters to strip, malformed pieces),   *)
(*     rewrite scheme, pipeline headers colliding with 0-2 client lines,   *)
(*     the seven forwarded headers from a trusted / untrusted peer, taken  *)
(*     through the steps of rewriteRequest.                                *)
(* At the end the observation must satisfy FailedPF(c, o) = {} - the same  *)
(* operator that judges recorded traces.  Mutant selects deliberately      *)
(* wrong step functions (negative controls); two of them are the           *)
(* behaviour of the current code recorded as known findings                *)
(* (on_reencodes_path, malformed_query_kept).                              *)
(***************************************************************************)
EXTENDS ProxyForward, TLC

CONSTANTS MaxTail, Mutant

VARIABLES pc, c, url, o

vars == <<pc, c, url, o>>

T(cl, ch) == [c |-> cl, d |-> ch]
A  == T("u", "a")
Ua == T("U", "a")
B  == T("u", "b")
Ub == T("U", "b")
R  == T("r", "[")
P  == T("p", "%")
S  == T("s", "/")
D  == T("D", ";")
X  == T("x", "!")
Two == T("u", "2")
Five == T("u", "5")

TailAlphabet == {Sep, B, Ub, R, P, S, D, X}
Tails == UNION {[1..n -> TailAlphabet] : n \in 0..MaxTail}

Pair(k, v) == [k |-> k, v |-> v, mal |-> FALSE]
Mal == [k |-> "m=%zz", v |-> "", mal |-> TRUE]
PairAlphabet == {Pair("a", "1"), Pair("tok", "x"), Pair("tok", "y"), Mal}
Queries == UNION {[1..n -> PairAlphabet] : n \in 0..2}

NoFh == [n \in Names |-> 0]

Neutral ==
  [slashes |-> "off", rw_scheme |-> "", path |-> <<Sep, A>>, upath |-> <<>>, strip |-> <<>>, add |-> <<>>,
   rawq |-> "", urawq |-> "", pairs |-> <<>>, upairs |-> <<>>, qstrip |-> <<>>,
   method |-> "GET", fmethod |-> "POST", bodylen |-> 0, bodysha |-> "e",
   ph |-> <<>>, pass |-> FALSE, trusted |-> FALSE, fh |-> NoFh]

PathCases ==
  {[Neutral EXCEPT !.path = <<Sep, f>> \o t, !.strip = s, !.add = a, !.slashes = sl] :
     f \in {A, Ua}, t \in Tails, s \in {<<>>, <<Sep, A>>, <<Sep, Ua>>, <<Sep, B>>},
     a \in {<<>>, <<Sep, B>>, <<Sep, R>>}, sl \in {"off", "no_decode", "on"}}

HasS(p) == \E i \in 1..Len(p) : p[i].c = "s"

PhSets == {<<>>, <<[n |-> "custom", client |-> 0]>>, <<[n |-> "custom", client |-> 1]>>,
           <<[n |-> "custom", client |-> 2]>>, <<[n |-> "host", client |-> 1]>>,
           <<[n |-> "auth", client |-> 2], [n |-> "host", client |-> 1]>>}

FhSets == {NoFh} \cup {[NoFh EXCEPT ![n] = 1] : n \in Names}
          \cup {[n \in Names |-> 1], [NoFh EXCEPT !["for"] = 1, !["uri"] = 1], [NoFh EXCEPT !["forwarded"] = 1, !["proto"] = 1]}

RestCases ==
  {[Neutral EXCEPT !.pairs = q, !.rawq = IF q = <<>> THEN "" ELSE "q", !.qstrip = qs, !.rw_scheme = sch,
                   !.ph = ph, !.pass = ps, !.trusted = tr, !.fh = fh,
                   !.upath = <<Sep, A, Sep, B>>, !.urawq = "uq", !.upairs = <<Pair("tok", "z"), Pair("b", "2")>>] :
     q \in Queries, qs \in {<<>>, <<"tok">>}, sch \in {"", "http", "https"}, ph \in PhSets, ps \in BOOLEAN,
     tr \in BOOLEAN, fh \in FhSets}

Blank == [hits |-> 0, scheme |-> "-", method |-> "-", path |-> <<>>, pathok |-> TRUE, rawq |-> "", pairs |-> <<>>,
          bodylen |-> 0, bodysha |-> "e", ph |-> <<>>, host |-> "-", pass |-> <<>>, fwd3 |-> <<>>,
          xff |-> <<>>, fwd |-> <<>>]

NoUrl == [scheme |-> "-", path |-> <<>>, rawq |-> "", pairs |-> <<>>, h |-> <<>>, host |-> "-", fwd3 |-> <<>>,
          xff |-> <<>>, fwd |-> <<>>, pass |-> <<>>]

Init ==
  /\ pc = "create"
  /\ c \in {x \in PathCases : x.slashes # "off" \/ ~HasS(x.path)} \cup RestCases
  /\ url = NoUrl
  /\ o = Blank

(* ----------------------------- the steps -------------------------------- *)

DecodeSlashes(p) == [i \in 1..Len(p) |-> IF p[i].c = "s" THEN Sep ELSE p[i]]

(* what the current code does for allow_encoded_slashes: on - the path is   *)
(* decoded as a whole and re-encoded by a general purpose escaper           *)
Reencode(p) == [i \in 1..Len(p) |->
                  CASE p[i].c \in {"s"} -> Sep
                    [] p[i].c = "U" -> T("u", p[i].d)
                    [] p[i].c = "D" -> T("d", p[i].d)
                    [] p[i].c = "x" -> T("X", p[i].d)
                    [] OTHER -> p[i]]

ClientLines(n) == IF n = 0 THEN <<>> ELSE IF n = 1 THEN <<"c1">> ELSE <<"c1", "c2">>

(* CreateURL: scheme, path and query of the original request *)
Create ==
  /\ pc = "create"
  /\ url' = [NoUrl EXCEPT
               !.scheme = OrigScheme(c),
               !.path = LET p == OrigPath(c) IN
                        IF c.slashes # "on" THEN p
                        ELSE IF Mutant = "on_reencodes_path" THEN Reencode(p) ELSE DecodeSlashes(p),
               !.rawq = IF UriHonoured(c) THEN c.urawq ELSE c.rawq,
               !.pairs = IF UriHonoured(c) THEN c.upairs ELSE c.pairs]
  /\ pc' = "rewrite"
  /\ UNCHANGED <<c, o>>

MCut(p, s) ==
  CASE Mutant = "cut_on_decoded" -> IF s # <<>> /\ StartsWith(DecU(s), DecU(p)) THEN SubSeq(DecU(p), Len(s) + 1, Len(p)) ELSE DecU(p)
    [] Mutant = "cut_anywhere" ->
         IF s # <<>> /\ \E i \in 1..(Len(p) - Len(s) + 1) : SubSeq(p, i, i + Len(s) - 1) = s
         THEN LET i == CHOOSE j \in 1..(Len(p) - Len(s) + 1) : SubSeq(p, j, j + Len(s) - 1) = s
              IN SubSeq(p, 1, i - 1) \o SubSeq(p, i + Len(s), Len(p))
         ELSE p
    [] OTHER -> Cut(p, s)

Remove(ps, keys) ==
  IF Mutant = "malformed_query_kept" /\ AnyMal(ps) THEN ps
  ELSE IF Mutant = "first_only_removed" /\ \E i \in 1..Len(ps) : ~ps[i].mal /\ ps[i].k \in keys
  THEN LET i == CHOOSE j \in 1..Len(ps) : ~ps[j].mal /\ ps[j].k \in keys /\ \A k \in 1..(j - 1) : ps[k].mal \/ ps[k].k \notin keys
       IN SubSeq(ps, 1, i - 1) \o SubSeq(ps, i + 1, Len(ps))
  ELSE Without(ps, keys)

Rewrite ==
  /\ pc = "rewrite"
  /\ url' = [url EXCEPT
               !.scheme = IF c.rw_scheme # "" THEN c.rw_scheme ELSE @,
               !.path = IF Mutant = "add_then_strip" THEN MCut(c.add \o @, c.strip) ELSE c.add \o MCut(@, c.strip),
               !.pairs = IF c.qstrip = <<>> THEN @ ELSE Remove(@, StripSet(c)),
               !.rawq = IF c.qstrip = <<>> THEN @ ELSE "re-encoded"]
  /\ pc' = "headers"
  /\ UNCHANGED <<c, o>>

(* rewriteRequest: copy the client's headers, drop -Method/-Uri/-Path, let  *)
(* the pipeline's headers replace, regenerate the forwarded headers         *)
Headers ==
  /\ pc = "headers"
  /\ LET req == Req(c) IN
     url' = [url EXCEPT
               !.h = [i \in 1..Len(c.ph) |->
                        IF Mutant = "header_added_not_set" THEN ClientLines(c.ph[i].client) \o <<"p">> ELSE <<"p">>],
               !.host = IF PipelineHost(c) /\ Mutant # "pipeline_host_ignored" THEN "p" ELSE "target",
               !.pass = IF c.pass THEN <<"c1">> ELSE <<>>,
               !.fwd3 = IF Mutant = "forwarded_method_kept" /\ req["method"] > 0 THEN <<"method">> ELSE <<>>,
               !.xff = IF req["for"] > 0 \/ req["proto"] > 0 \/ req["host"] > 0
                       THEN (IF req["for"] > 0 THEN <<"c1", "c2">> ELSE <<>>)
                            \o (IF Mutant = "peer_not_appended" /\ req["for"] > 0 THEN <<>> ELSE <<"peer">>)
                       ELSE <<>>,
               !.fwd = IF req["for"] > 0 \/ req["proto"] > 0 \/ req["host"] > 0 THEN <<>>
                       ELSE (IF req["forwarded"] > 0 THEN <<"c1", "c2">> ELSE <<>>) \o <<"peer">>]
  /\ pc' = "send"
  /\ UNCHANGED <<c, o>>

Wire(p) ==
  IF Mutant # "double_encode" THEN p
  ELSE LET RECURSIVE W(_)
           W(q) == IF q = <<>> THEN <<>>
                   ELSE (IF Head(q).c = "p" THEN <<P, Two, Five>> ELSE <<Head(q)>>) \o W(Tail(q))
       IN W(p)

Send ==
  /\ pc = "send"
  /\ o' = [Blank EXCEPT
             !.hits = 1, !.scheme = url.scheme,
             !.method = IF Req(c)["method"] > 0 THEN c.fmethod ELSE c.method,
             !.path = Wire(url.path), !.rawq = url.rawq, !.pairs = url.pairs,
             !.ph = url.h, !.host = url.host, !.pass = url.pass, !.fwd3 = url.fwd3, !.xff = url.xff, !.fwd = url.fwd]
  /\ pc' = "done"
  /\ UNCHANGED <<c, url>>

Next == Create \/ Rewrite \/ Headers \/ Send

Spec == Init /\ [][Next]_vars

(* ---------------------------- invariants -------------------------------- *)

InvProperty == pc = "done" => FailedPF(c, o) = {}

(* strip-then-add, on the spelling the client used *)
InvStripThenAdd ==
  pc = "done" /\ c.slashes # "on" /\ ~CutIsOpen(OrigPath(c), c.strip, c.slashes) =>
     o.path = c.add \o Cut(OrigPath(c), c.strip)

(* no octet changes its spelling: decoding both sides octet-wise gives the  *)
(* same string, and the number of octets is the same (no double encoding)   *)
Chars(p) == [i \in 1..Len(p) |-> p[i].d]
InvNoRecoding ==
  pc = "done" /\ c.strip = <<>> /\ c.add = <<>> =>
     LET p == OrigPath(c) IN
     Len(o.path) = Len(p) /\ Chars(o.path) = Chars(p)
     /\ \A i \in 1..Len(o.path) : p[i].c \notin {"s", "U"} \/ c.slashes # "on" => o.path[i] = p[i]

InvPipelineWins == pc = "done" => \A i \in 1..Len(c.ph) : c.ph[i].n = "host" \/ o.ph[i] = <<"p">>

InvForwarded == pc = "done" => o.fwd3 = <<>> /\ ("peer" \in {o.xff[i] : i \in 1..Len(o.xff)} \cup {o.fwd[i] : i \in 1..Len(o.fwd)})
=============================================================================
