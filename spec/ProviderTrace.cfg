SPECIFICATION Spec
CONSTANTS
  Kind = "trace"
  Mutant = "none"
CONSTRAINT Export
POSTCONDITION Done
CHECK_DEADLOCK FALSE
