SPECIFICATION Spec
CONSTANTS
  PKind = "poll1"
  Mutant = "none"
  Srcs <- MCSrcs
  Reqs <- MCReqs
  Segs <- MCSegs
  MaxEnv = 3
  MaxVer = 3
INVARIANTS InvE1 InvE2 InvE3 InvE4 InvContract InvTypes
PROPERTY InvalidKeeps
CHECK_DEADLOCK FALSE
