SPECIFICATION Spec
CONSTANTS
  r1 = r1
  r2 = r2
  PKind = "poll1"
  Mutant = "none"
  Srcs <- MCSrcs
  Reqs <- MCReqs
  Segs <- MCSegs
  EnvClasses <- MCAllClasses
  MaxEnv = 2
  MaxVer = 3
  Stamped = FALSE
SYMMETRY ReqSymmetry
INVARIANTS InvE1 InvE2 InvE3 InvE4 InvContract InvTypes
CHECK_DEADLOCK FALSE
