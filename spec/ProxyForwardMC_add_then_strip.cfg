SPECIFICATION Spec
CONSTANTS MaxTail = 2
  Mutant = "add_then_strip"
INVARIANTS InvProperty InvStripThenAdd InvNoRecoding InvPipelineWins InvForwarded
CHECK_DEADLOCK FALSE
