"""TLAPS proofs of the unbounded part of a design argument (supplementary: about the specification
only, recorded in the evidence, never deciding a verdict)."""
import json
import os
import re
import shutil
import subprocess
import time

import signal

from verif import log


class _Res:
    def __init__(self, rc, out):
        self.returncode, self.stdout, self.stderr = rc, out, ""


def _kill_in(d):
    """Ends every process whose working directory lies in d: Isabelle's back end starts a session of its own, so
    ending tlapm's process group does not reach it."""
    d = os.path.realpath(d)
    for pid in os.listdir("/proc"):
        if not pid.isdigit() or int(pid) == os.getpid():
            continue
        try:
            cwd = os.readlink("/proc/%s/cwd" % pid)
        except OSError:
            continue
        if cwd == d or cwd.startswith(d + "/") or cwd.startswith(d + " "):
            try:
                os.kill(int(pid), signal.SIGKILL)
            except OSError:
                pass


def _run_group(cmd, cwd, timeout):
    """Runs tlapm as leader of a process group of its own and ends the whole group afterwards: tlapm may leave its
    back ends (z3, Isabelle's poly) behind when it gives up on an obligation - on a loaded machine they were found
    running an hour later."""
    p = subprocess.Popen(cmd, cwd=cwd, stdout=subprocess.PIPE, stderr=subprocess.STDOUT, text=True, start_new_session=True)
    try:
        out, _ = p.communicate(timeout=timeout)
        return _Res(p.returncode, out)
    finally:
        try:
            os.killpg(p.pid, signal.SIGKILL)
        except (ProcessLookupError, PermissionError):
            pass
        _kill_in(cwd)
        try:
            p.communicate(timeout=10)
        except Exception:  # noqa: BLE001
            pass


def tlaps(work, module, deps, theorem, neg=None, threads=8, timeout=1500):
    """Runs tlapm on <module>.tla (copied with its dependencies into a sub-directory of the work dir).
    neg = (file, old text, new text, description): a variant of one dependency under which the proof
    must NOT go through (negative control). Returns the info dict for the evidence."""
    d = work.path("proof_" + module)
    os.makedirs(d, exist_ok=True)
    info = {"module": module, "tool": "tlapm", "theorem": theorem}
    try:
        for f in deps + [module + ".tla"]:
            shutil.copy(os.path.join(work.dir, f), d)
        t0 = time.time()
        pos = _run_group(["tlapm", "--threads", str(threads), module + ".tla"], d, timeout)
        m = re.search(r"All (\d+) obligations? proved", pos.stdout + pos.stderr)
        info["obligations_proved"] = int(m.group(1)) if m else 0
        info["status"] = "proved" if m and pos.returncode == 0 else "not proved"
        info["wall_s"] = round(time.time() - t0, 1)
        if neg:
            fname, old, new, what = neg
            nd = work.path("proof_" + module + "_neg")
            os.makedirs(nd, exist_ok=True)
            for f in deps + [module + ".tla"]:
                shutil.copy(os.path.join(work.dir, f), nd)
            txt = open(os.path.join(nd, fname)).read()
            if txt.count(old) != 1:
                raise RuntimeError("negative control could not be derived")
            open(os.path.join(nd, fname), "w").write(txt.replace(old, new))
            negr = _run_group(["tlapm", "--threads", str(threads), module + ".tla"], nd, timeout)
            m2 = re.search(r"(\d+)/(\d+) obligations failed", negr.stdout + negr.stderr)
            info["negative_control"] = {"variant": what, "obligations_failed": int(m2.group(1)) if m2 else 0,
                                        "refuted": bool(m2) and negr.returncode != 0}
    except Exception as e:  # noqa: BLE001 - the proof is supplementary
        info["status"] = "not run: %s" % str(e)[:200]
    log("TLAPS %s: %s" % (module, json.dumps(info)))
    return info
