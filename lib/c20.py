"""C20 - config file and environment variables are equivalent; the environment wins per leaf.

Design run of spec/ConfigMerge.tla (ConfigMergeMC + negative controls), abstract cases enumerated by
TLC (ConfigMergeGen), executed on the real config.NewConfiguration by harness/cmd/c20drv (several
processes on shards: the environment is process-global), judged by TLC (ConfigMergeTrace); plus the
usability universe (file iff environment) and, in the thorough tier, every leaf of the configuration
structure in isolation.
"""
import copy
import hashlib
import json
import os
import shutil
import subprocess
import sys
import time
from concurrent.futures import ThreadPoolExecutor

from verif import (Infra, Verdict, Work, build_driver, goenv, load_known, log, match_known, read_ndjson,
                   save_replay, tlc_expect_ok, tlc_expect_violation, write_ndjson, WORKROOT)

PROP = "C20"

# mutant model -> (configuration, an invariant it must violate)
MUTANTS = {
    "replace_lists": "InvEnvAcc",
    "replace_list_elements": "InvEnvAcc",
    "env_fragments_replace_lists": "InvEnvAcc",
    "lower_wins": "InvResult",
    "env_before_file": "InvResult",
    "no_escape": "InvNaming",
}

TIERS = {
    # NKEEP: one in n of the splits that leave a leaf to the defaults; ALLPERMS: all enumeration orders
    # for environments up to this size, PERMS random ones above; repeat: loads per case
    "quick": {"gen": {"VERIF_GEN_MAXENV": 4, "VERIF_GEN_NKEEP": 6, "VERIF_GEN_ALLPERMS": 2, "VERIF_GEN_PERMS": 1},
              "shards": 8, "repeat": 1, "leaves": False, "judges": 4},
    "thorough": {"gen": {"VERIF_GEN_MAXENV": 4, "VERIF_GEN_NKEEP": 1, "VERIF_GEN_ALLPERMS": 3, "VERIF_GEN_PERMS": 2},
                 "shards": 12, "repeat": 1, "leaves": True, "judges": 6},
}

RULE = ("merge cases = for every shape class of ConfigMerge.tla (scalars, string list, two lists, list of "
        "structures, maps inside list elements, list below a free-form map, list inside list elements, lists of "
        "free-form maps; 5-6 leaves, lists <= 3) every split of the leaves into file / environment / both with "
        "conflicting values / neither that a file can express, <= 4 environment variables, with enumeration "
        "orders of the environment (all permutations up to a size, seeded random ones above), enumerated by TLC "
        "and bound to real paths of config.Configuration (2-4 bindings per class, rotating value roles and two "
        "prefixes); usability cases = every name the loader or the schema knows for mechanism kinds x types, "
        "endpoint auth strategies, cache types, providers, response overrides, redirect codes, log levels, TLS "
        "versions and cipher suites, each loaded entirely from a file and entirely from the environment in two "
        "forms; thorough adds every scalar leaf of the structure in isolation. distinct = by input content; "
        "non-trivial (counted by TLC) = merge: file and environment both contribute or a conflict exists; "
        "usability: the name is not known to both sides or one side rejects it")


def design_run(work, verdict):
    with ThreadPoolExecutor(max_workers=4) as ex:
        main = ex.submit(tlc_expect_ok, work, "ConfigMergeMC", "ConfigMergeMC.cfg", workers=4, timeout=1500, heap="6g")
        muts = {m: ex.submit(tlc_expect_violation, work, "ConfigMergeMC", "ConfigMergeMC_%s.cfg" % m, inv,
                             workers=1, timeout=600) for m, inv in MUTANTS.items()}
        r = main.result()
        refuted = {m: f.result().violated for m, f in muts.items()}
    log("design run: %d distinct states (%.1fs), %d negative controls refuted" % (r.distinct, r.wall, len(refuted)))
    verdict.coverage["states"] = r.distinct
    verdict.coverage["transitions"] = r.generated
    verdict.coverage["design_run"] = {
        "module": "ConfigMergeMC", "distinct_states": r.distinct, "generated": r.generated,
        "bounds": "every tree of the grammar (maps <= 3 keys, lists <= 3 elements, depth <= 3) with <= 3 leaves "
                  "plus the 8 shape classes (5-6 leaves); all 4^n splits a file can express with <= 4 environment "
                  "variables; all enumeration orders (interleavings of ApplyEnv)",
        "invariants": ["InvResult", "InvOverlay", "InvEnvAcc", "InvNaming", "InvTypes"],
        "negative_controls_refuted": refuted, "wall_s": round(r.wall, 1),
    }


def shards_run(binary, work, cmd, n, args, tag):
    """Runs the driver command on n shards in parallel (one process each) and concatenates the traces."""
    procs = []
    for i in range(n):
        trace = work.path("%s.%d.ndjson" % (tag, i))
        d = work.path("%s.%d.d" % (tag, i))
        e = goenv()
        e["VERIF_WORK"] = WORKROOT
        a = [binary, cmd, "-trace", trace, "-dir", d, "-shard", str(i), "-of", str(n)] + [str(x) for x in args]
        procs.append((subprocess.Popen(a, stdout=subprocess.PIPE, stderr=subprocess.PIPE, text=True, env=e), trace, d))
    lines = []
    for p, trace, d in procs:
        try:
            out, err = p.communicate(timeout=3000)
        except subprocess.TimeoutExpired:
            for q, _, _ in procs:
                q.kill()
            raise Infra("driver %s timed out" % cmd)
        if p.returncode != 0:
            for q, _, _ in procs:
                q.kill()
            raise Infra("driver %s failed (rc=%d):\n%s" % (cmd, p.returncode, (out + err)[-4000:]))
        lines += read_ndjson(trace)
        shutil.rmtree(d, ignore_errors=True)
    return lines


def produce(work, binary, tier, seed):
    cfg = TIERS[tier]
    cases = work.path("cases.ndjson")
    genv = {"VERIF_GEN_OUT": cases}
    genv.update(cfg["gen"])
    g = tlc_expect_ok(work, "ConfigMergeGen", "ConfigMergeGen.cfg", env=genv, seed=seed, workers=1, timeout=1200,
                      heap="6g")
    ngen = sum(1 for _ in open(cases))
    log("TLC generated %d abstract cases in %.1fs" % (ngen, g.wall))
    t0 = time.time()
    lines = shards_run(binary, work, "merge", cfg["shards"],
                       ["-cases", cases, "-seed", seed, "-repeat", cfg["repeat"]], "merge")
    lines += shards_run(binary, work, "usable", 1, [], "usable")
    if cfg["leaves"]:
        lines += shards_run(binary, work, "leaves", 1, [], "leaves")
    log("driver executed %d cases (%.1fs)" % (len(lines), time.time() - t0))
    return lines, ngen


def judge(work, lines, tag, parts=1):
    """TLC judges the recorded cases (split into parts judged in parallel)."""
    if not lines:
        return {"lines": 0, "nontrivial": 0, "bad": [], "infra": []}
    parts = max(1, min(parts, (len(lines) + 1999) // 2000))
    chunks = [lines[i::parts] for i in range(parts)]

    def one(k):
        tf = work.path("judge_%s_%d.ndjson" % (tag, k))
        out = work.path("verdict_%s_%d.json" % (tag, k))
        write_ndjson(tf, chunks[k])
        tlc_expect_ok(work, "ConfigMergeTrace", "ConfigMergeTrace.cfg", env={"VERIF_TRACE": tf, "VERIF_OUT": out},
                      workers=1, timeout=3000, heap="6g")
        return json.load(open(out))

    with ThreadPoolExecutor(max_workers=parts) as ex:
        vs = list(ex.map(one, range(parts)))
    v = {"lines": sum(x["lines"] for x in vs), "nontrivial": sum(x["nontrivial"] for x in vs),
         "bad": [b for x in vs for b in x["bad"]], "infra": [b for x in vs for b in x["infra"]]}
    if v["lines"] != len(lines):
        raise Infra("trace length mismatch: TLC consumed %d of %d" % (v["lines"], len(lines)))
    if v["infra"]:
        raise Infra("binding check failed in TLC (variable names / order / file part) for %d cases, e.g. %s"
                    % (len(v["infra"]), v["infra"][:3]))
    return v


def case_key(c):
    d = copy.deepcopy(c)
    d.pop("obs", None)
    d.pop("id", None)
    d.pop("repeat", None)
    for lf in d.get("leaves", []):
        lf.pop("dflt", None)
    return hashlib.sha1(json.dumps(d, sort_keys=True).encode()).hexdigest()


def facts_of(c, reason):
    """Trigger fields of a failing case for known-finding matching: inputs only, plus the name of the failed
    comparison (reason)."""
    f = {"ev": c["ev"], "reason": reason}
    if c["ev"] == "merge":
        f.update({"shape": c["shape"], "binding": c["binding"]})
        if c["shape"] == "single-leaf":
            f["leaf"] = ".".join(c["leaves"][0]["path"])
            f["src"] = c["leaves"][0]["src"]
    else:
        f.update({"universe_item": c["item"], "item_class": c["item"].rsplit(":", 1)[0], "form": c["form"],
                  "source": c["source"], "category": c["category"]})
    return f


def rerun(work, binary, cases, tag):
    """Re-executes recorded cases in isolation (fresh driver processes) and returns the new records."""
    out = []
    merge = [c for c in cases if c["ev"] == "merge" and c["shape"] != "single-leaf"]
    leaves = [c for c in cases if c["ev"] == "merge" and c["shape"] == "single-leaf"]
    usable = [c for c in cases if c["ev"] == "usable"]
    if merge:
        cf = work.path("%s.cases.ndjson" % tag)
        write_ndjson(cf, merge)
        out += shards_run(binary, work, "merge", 1, ["-concrete", "-cases", cf], tag + "m")
    if leaves:
        out += shards_run(binary, work, "leaves", 1, ["-only", ",".join(sorted({c["id"] for c in leaves}))], tag + "l")
    if usable:
        items = sorted({c["item"] for c in usable})
        got = shards_run(binary, work, "usable", 1, ["-only", ",".join(items)], tag + "u")
        want = {c["id"] for c in usable}
        out += [c for c in got if c["id"] in want]
    return out


def reproduce(work, binary, lines, cand_ids, reasons, times=3):
    """Re-executes the given rejected cases in isolation (fresh driver processes), up to `times` times; only
    those rejected every time count. Which variable the loader loses when several address one list is random,
    so the set of reasons may change between runs: a case is reproduced if it is rejected again, with the union
    of the reasons seen."""
    by_id = {c["id"]: c for c in lines}
    reasons = {i: set(reasons[i]) for i in cand_ids}
    cand = [by_id[i] for i in cand_ids]
    for k in range(times):
        if not cand:
            break
        got = rerun(work, binary, cand, "repro%d" % k)
        v = judge(work, got, "repro%d" % k, parts=4)
        still = {}
        for b in v["bad"]:
            still[b["id"]] = set(b["reasons"]) | reasons.get(b["id"], set())
        cand = [c for c in got if c["id"] in still]
        reasons = still
    return [(c, sorted(reasons[c["id"]])) for c in cand]


def binding_selftest(work, lines):
    """Corrupts recorded observations / inputs and checks that TLC rejects exactly the corrupted records."""
    mutated = []
    bad_names = []
    for c in lines:
        if len(mutated) < 40 and c["ev"] == "merge" and c["obs"]["kind"] == "ok":
            # an environment leaf shows the file's value ("file wins") / a file leaf the other value
            for i, lf in enumerate(c["leaves"]):
                if lf["src"] in ("B", "F", "E"):
                    m = copy.deepcopy(c)
                    want = lf["canon"][(lf["ev"] if lf["src"] in ("B", "E") else lf["fv"]) - 1]
                    other = lf["canon"][0] if want == lf["canon"][1] else lf["canon"][1]
                    if m["obs"]["vals"][i] != want:
                        continue
                    m["obs"]["vals"][i] = other
                    m["id"] = c["id"] + ":corrupt"
                    mutated.append(m)
                    break
        elif len(mutated) < 60 and c["ev"] == "usable" and c["obs"]["file"]["accepted"] \
                and c["obs"]["file"]["effective"] and c["obs"]["env"]["accepted"] and c["obs"]["env"]["effective"]:
            m = copy.deepcopy(c)
            m["obs"]["env"]["accepted"] = False
            m["id"] = c["id"] + ":corrupt"
            mutated.append(m)
        if len(bad_names) < 5 and c["ev"] == "merge":
            for i, lf in enumerate(c["leaves"]):
                if lf["var"] != "-" and "__" in lf["var"][len(c["prefix"]):]:
                    m = copy.deepcopy(c)
                    m["leaves"][i]["var"] = c["prefix"] + lf["var"][len(c["prefix"]):].replace("__", "_")
                    bad_names.append(m)
                    break
    if len(mutated) < 2:
        raise Infra("binding self-test: nothing to corrupt")
    tf = work.path("selftest.ndjson")
    out = work.path("selftest.json")
    write_ndjson(tf, mutated)
    tlc_expect_ok(work, "ConfigMergeTrace", "ConfigMergeTrace.cfg", env={"VERIF_TRACE": tf, "VERIF_OUT": out},
                  workers=1, timeout=900)
    v = json.load(open(out))
    rejected = {b["id"] for b in v["bad"]}
    if rejected != {m["id"] for m in mutated}:
        raise Infra("binding self-test failed: %d corrupted observations, %d rejected" % (len(mutated), len(rejected)))
    res = {"corrupted_observations": len(mutated), "rejected": len(rejected)}
    if bad_names:
        write_ndjson(tf, bad_names)
        tlc_expect_ok(work, "ConfigMergeTrace", "ConfigMergeTrace.cfg", env={"VERIF_TRACE": tf, "VERIF_OUT": out},
                      workers=1, timeout=900)
        v = json.load(open(out))
        if len(v["infra"]) != len(bad_names):
            raise Infra("binding self-test failed: %d wrong variable names, %d noticed" % (len(bad_names), len(v["infra"])))
        res["wrong_variable_names"] = len(bad_names)
        res["noticed"] = len(v["infra"])
    return res


def all_known(known, c, reasons):
    entries = [match_known(known, facts_of(c, r)) for r in reasons]
    return entries if all(entries) else None


def classify(work, binary, verdict, known, lines, bad, sample=120, limit=400):
    """Known findings vs. violations. A rejected case is a known finding iff every reason it was rejected for
    matches an entry. Everything else is re-executed in isolation (3 times) before it is called a violation;
    of the known ones a sample is re-executed as well (once) to show they are reproducible."""
    by_id = {c["id"]: c for c in lines}
    reasons = {b["id"]: b["reasons"] for b in bad}
    known_ids, unknown_ids = [], []
    for i, rs in reasons.items():
        (known_ids if all_known(known, by_id[i], rs) else unknown_ids).append(i)
    stats = {"rejected_by_tlc": len(bad), "known_finding_cases": 0, "reproduced": 0, "not_reproduced": 0,
             "reproduction_skipped_over_limit": max(0, len(unknown_ids) - limit)}
    for i in known_ids:
        for e in {id(e): e for e in all_known(known, by_id[i], reasons[i])}.values():
            verdict.known_finding(e)
        stats["known_finding_cases"] += 1
    step = max(1, len(known_ids) // sample)
    if known_ids:
        conf = reproduce(work, binary, lines, known_ids[::step][:sample], reasons, times=1)
        stats["known_sample_reexecuted"] = len(known_ids[::step][:sample])
        stats["known_sample_reproduced"] = len(conf)
    if unknown_ids:
        log("%d rejected cases are not known findings; re-executing them in isolation" % len(unknown_ids))
        conf = reproduce(work, binary, lines, unknown_ids[:limit], reasons, times=3)
        stats["reproduced"] = len(conf)
        stats["not_reproduced"] = len(unknown_ids[:limit]) - len(conf)
        groups = {}
        for c, rs in conf:
            entries = all_known(known, c, rs)
            if entries:     # the reasons seen over the re-executions are all known after all
                for e in {id(e): e for e in entries}.values():
                    verdict.known_finding(e)
                stats["known_finding_cases"] += 1
                continue
            unknown = [r for r in rs if not match_known(known, facts_of(c, r))]
            sig = json.dumps(facts_of(c, unknown[0]), sort_keys=True)
            groups.setdefault(sig, []).append(c)
        # one VIOLATION line (and replay file with up to 5 cases) per distinct class of trigger fields;
        # usability classes first
        for sig in sorted(groups, key=lambda g: ('"ev": "usable"' not in g, -len(groups[g]))):
            cs = groups[sig]
            path = (save_replay(PROP, case_key(cs[0])[:12], cs[:5]) if len(verdict.violations) < 20 else "(not saved)")
            verdict.violation(path, "%s (%d cases)" % (sig, len(cs)))
        stats["violating_cases"] = sum(len(g) for g in groups.values())
    return stats


def run(tier, seed, replay=None):
    verdict = Verdict(PROP, tier, seed)
    work = Work(PROP)
    try:
        binary = build_driver(cmd="c20drv")
        if replay:
            return do_replay(work, binary, replay)

        with ThreadPoolExecutor(max_workers=2) as ex:
            d = ex.submit(design_run, work, verdict)
            pr = ex.submit(produce, work, binary, tier, seed)
            lines, ngen = pr.result()
            d.result()

        t0 = time.time()
        v = judge(work, lines, "main", parts=TIERS[tier]["judges"])
        log("TLC judged %d cases (%.1fs)" % (len(lines), time.time() - t0))
        known = load_known(PROP)
        log("%d of %d cases rejected by TLC" % (len(v["bad"]), len(lines)))
        stats = classify(work, binary, verdict, known, lines, v["bad"])

        selftest = binding_selftest(work, lines)

        keys = {case_key(c) for c in lines}
        merge = [c for c in lines if c["ev"] == "merge"]
        usable = [c for c in lines if c["ev"] == "usable"]
        bad_ids = {b["id"] for b in v["bad"]}
        verdict.coverage.update({
            "traces_validated_against_impl": len(lines),
            "evaluations": len(lines) + sum(1 for c in usable),  # a usability record is two loads
            "distinct_nontrivial": min(len(keys), v["nontrivial"]),
            "rule": RULE,
            "generated_by_tlc": ngen,
            "merge_cases": len(merge),
            "usability_cases": len(usable),
            "universe_items": len({c["item"] for c in usable}),
            "distinct_cases": len(keys),
            "nontrivial_cases": v["nontrivial"],
            "verdicts": stats,
            "merge_cases_held_by_shape": count_by(c["shape"] for c in merge if c["id"] not in bad_ids),
            "merge_cases_rejected_by_reason": count_by(r for b in v["bad"] if b["ev"] == "merge" for r in b["reasons"]),
            "usability_rejected": sorted(b["id"] for b in v["bad"] if b["ev"] == "usable"),
            "bindings": sorted({c["shape"] + "/" + c["binding"] for c in merge}),
            "binding_selftest": selftest,
            "samples": [lines[0], usable[0] if usable else lines[-1]],
        })
        verdict.assumptions += [
            "values are plain YAML scalars, the same text in the file and in the environment variable; keys are "
            "lower case (the loader lower-cases variable names)",
            "a file part cannot leave out list elements; files get the empty lists / endpoint the schema requires "
            "around the bound leaves (ballast), which the environment never gives",
            "koanf's environment provider collects variables into a Go map, so the order in which the loader "
            "processes them is random per load whatever order the process environment has; the driver sets the "
            "chosen order and every load additionally samples one of the loader's own orders",
            "usability: 'effective' means the mechanism catalogue / cache factory accepts the item or the value "
            "shows in the Configuration; connection failures of caches are not a verdict",
        ]
        return verdict.finish()
    finally:
        work.close()


def count_by(it):
    out = {}
    for x in it:
        out[x] = out.get(x, 0) + 1
    return out


def do_replay(work, binary, replay):
    cases = read_ndjson(os.path.abspath(replay))
    got = rerun(work, binary, cases, "replay")
    v = judge(work, got, "replay")
    for b in v["bad"]:
        print("VIOLATION property=%s replay=%s  # %s %s" % (PROP, replay, ",".join(b["reasons"]), json.dumps(b["detail"])))
    print("replayed %d cases, %d rejected" % (v["lines"], len(v["bad"])))
    return 1 if v["bad"] else 0


if __name__ == "__main__":
    import argparse
    import traceback
    import verif
    ap = argparse.ArgumentParser()
    ap.add_argument("--tier", default="quick", choices=["quick", "thorough"])
    ap.add_argument("--seed", type=int, default=1)
    ap.add_argument("--replay")
    a = ap.parse_args()
    try:
        rc = run(a.tier, a.seed, a.replay)
    except Infra as e:
        print("INFRASTRUCTURE FAILURE (no verdict): %s" % e, file=sys.stderr)
        rc = 2
    except Exception:  # noqa: BLE001
        traceback.print_exc()
        rc = 2
    finally:
        verif.cleanup_binaries()
    sys.exit(rc)
