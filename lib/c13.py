"""C13: all three entry points decide alike and show the pipeline the same request."""
from casecheck import CaseCheck


class C13(CaseCheck):
    prop = "C13"
    trace_module = "EntryPointsTrace"
    mc_module = "EntryPointsMC"
    mc_invariants = ["ViewStable"]
    mutants = {"rebuilt": "ViewStable"}
    rule = ("seeded logical requests: method x scheme x host (with/without port) x path of one of three rules with "
            "captures (plain, percent-encoded reserved and unreserved octets, encoded slash with setting on, free "
            "wildcard remainder) x query (empty, repeated and encoded parameters) x headers (name casing variants, "
            "repeated) x cookies x body (none, JSON, form, text), each sent through the HTTP decision service (as a "
            "trusted proxy: X-Forwarded-Method/-Proto/-Host/-Uri), the Envoy gRPC service (path with query string as "
            "Envoy fills it, and split path/query) and the proxy service; the pipeline holds a real CEL authorizer "
            "reading captures and headers, real header / cookie finalizers with templates on captures, query, "
            "cookies, and the scripted Echo finalizer; non-trivial = the request has captures, a query or headers; "
            "distinct = by case content")
    assumptions = [
        "query strings are compared after canonicalisation (sorted by key, per-key order kept): the decision service "
        "re-encodes the query of X-Forwarded-Uri",
        "client address lists are out of scope here (C09)",
    ]

    def driver_args(self, gen_path, trace_path, tier, seed):
        return ["c13", "-trace", trace_path, "-seed", seed, "-n", 1500 if tier == "quick" else 40000]

    def replay_args(self, cases_path, trace_path):
        return ["c13", "-replay", cases_path, "-trace", trace_path]

    def facts(self, case, bad):
        return {"reason": ",".join(sorted(bad["reasons"]))}

    def corrupt(self, case):
        o = case["obs"]["envoy"]
        if o["positive"] and o["view"]["captures"]:
            o["view"]["captures"] = []
            return case
        return None


def run(tier, seed, replay):
    return C13().run(tier, seed, replay)
