"""C02, C03, C06: rule matching against PathMatch / RuleIndex (spec/RuleIndexTrace.tla)."""
import copy
import hashlib
import json
import os
from concurrent.futures import ThreadPoolExecutor

from verif import (Infra, Verdict, Work, build_driver, load_known, log, match_known, read_ndjson,
                   run_driver, save_replay, tlc_expect_ok, tlc_expect_violation, write_ndjson)

PROFILES = {
    # property: (driver profile, histories quick, histories thorough)
    "C02": ("c02", 350, 25000),
    "C03": ("c03", 700, 40000),
    "C06": ("c06", 220, 15000),
    "C08": ("c08", 600, 40000),
}

TRACE_MODULE = {"C08": "EncodingTrace"}

RULES = {
    "C08": "seeded rule sets mixing a literal expression, single-wildcard, free-wildcard and all-wildcard "
           "expressions for the same base path, each rule with a random allow_encoded_slashes setting (unset, "
           "off, on, no_decode) and optional path_params, with and without default rule, decision and proxy mode; "
           "request paths = the base path and variants with segments containing an encoded slash or a reserved "
           "octet; every path is sent in 5 spellings (normal form, everything encoded in lower-case hex, three "
           "random encodings of unreserved octets with random hex case); observed: status, matched rule, captures "
           "seen by a finalizer, path received by the upstream; non-trivial = the spelling contains at least one "
           "percent-encoded octet; distinct = by (history, request)",
    "C02": "seeded random rule sets (1-3 sets of 1-4 rules over a per-history alphabet of 2-3 literals incl. byte-prefix "
           "related and escaped ones, single and free wildcards, named and unnamed, trailing slashes; method "
           "conditions; backtracking flags) loaded in random order into a fresh assembled decision service; probes "
           "are instantiations of every loaded expression (each wildcard with several values incl. the empty "
           "segment), their neighbours (one segment more / less / replaced) and random paths, x methods; "
           "non-trivial = at least two structurally matching expressions; distinct = by (history, request)",
    "C03": "as C02 with rich match conditions: scheme, method lists with ALL and negations and custom methods, 0-3 "
           "hosts of type exact/glob/regex (any-of), path_params of type exact/glob/regex on single and free "
           "wildcards, several routes per rule; requests vary method, scheme (X-Forwarded-Proto from a trusted "
           "peer), host and path; the captured values the pipeline sees are taken from the scripted Echo finalizer "
           "and compared with PathMatch!Captures; non-trivial / distinct as C02",
    "C06": "seeded random histories of up to 6 add/update/delete operations over 3 sources (updates change a rule's "
           "definition or expression, reorder, add, remove or keep rules; 1 in 8 operations is spoiled with an "
           "invalid expression or an expression owned by another rule set and must be rejected as a whole), "
           "performed on the real rule-set processor of a fresh assembled decision service; after every operation "
           "the probe set of C02 is looked up; non-trivial / distinct as C02",
}


def design_run(work, verdict, full=False):
    with ThreadPoolExecutor(max_workers=7) as ex:
        main = ex.submit(tlc_expect_ok, work, "RuleIndexMC", "RuleIndexMC.cfg", workers=2, timeout=900)
        m1 = ex.submit(tlc_expect_violation, work, "RuleIndexMC", "RuleIndexMC_append_changed.cfg", "IndexOrder",
                       workers=1, timeout=600)
        m2 = ex.submit(tlc_expect_violation, work, "RuleIndexMC", "RuleIndexMC_no_constraint.cfg",
                       "OwnershipUnique", workers=1, timeout=600)
        # the implementation-shaped trie refines the reference semantics on every history
        trie = ex.submit(tlc_expect_ok, work, "TrieMC", "TrieMC_full.cfg" if full else "TrieMC.cfg", workers=6,
                         timeout=1800)
        tm = {m: ex.submit(tlc_expect_violation, work, "TrieMC", "TrieMC_%s.cfg" % m, "Refines", workers=1,
                           timeout=900) for m in ("catchall_parent", "lost_captures", "stale_keys")}
        r = main.result()
        t = trie.result()
        refuted = {"append_changed": m1.result().violated, "no_constraint": m2.result().violated}
        refuted.update({"trie_" + m: f.result().violated for m, f in tm.items()})
    verdict.coverage["states"] = r.distinct + t.distinct
    verdict.coverage["transitions"] = r.generated + t.generated
    verdict.coverage["design_run"] = {
        "modules": {
            "RuleIndexMC": {"distinct_states": r.distinct, "generated": r.generated,
                            "invariants": ["OwnershipUnique", "IndexOrder", "LookupWellDefined", "NoEmptyWildcard"]},
            "TrieMC": {"distinct_states": t.distinct, "generated": t.generated,
                       "invariants": ["Refines (Trie!Find = PathMatch!Lookup incl. captures, all histories)",
                                      "EmptyWhenEmpty"]},
        },
        "negative_controls_refuted": refuted, "wall_s": round(max(r.wall, t.wall), 1),
    }


def _judge(work, trace, tag="", module="RuleIndexTrace"):
    out = work.path("verdict%s.json" % tag)
    r = tlc_expect_ok(work, module, module + ".cfg",
                      env={"VERIF_TRACE": trace, "VERIF_OUT": out}, workers=1, timeout=3000, heap="5g")
    v = json.load(open(out))
    v["tlc_states"] = r.distinct
    return v


def locate(lines, bad):
    """Maps TLC's global line numbers to (trace id, offset inside the trace, why)."""
    starts = {}
    for i, ev in enumerate(lines):
        if ev["ev"] == "reset":
            starts[ev["trace"]] = i
    out = set()
    for b in bad:
        out.add((b["trace"], b["line"] - 1 - starts[b["trace"]], b["why"]))
        EXPECTED[(b["trace"], b["line"] - 1 - starts[b["trace"]])] = b.get("exp", [])
    return out


EXPECTED = {}


def block(lines, trace_id):
    return [ev for ev in lines if ev["trace"] == trace_id]


def facts_of(block_lines, offset, why):
    ev = block_lines[offset]
    f = {"reason": why, "ev": ev["ev"], "kind": ev.get("kind", ""), "default": block_lines[0]["default"]}
    exp = EXPECTED.get((ev["trace"], offset)) or []
    if exp:
        # C08: the rule the specification selects for the request
        rules = {r["id"]: r for e in block_lines if e["ev"] == "op" for r in e["rules"]}
        r = rules.get(exp[0]["rule"])
        f["exp_setting"] = exp[0]["setting"]
        f["exp_rule_has_params"] = bool(r and any(rt["params"] for rt in r["routes"]))
        f["exp_rule_backtracks"] = bool(r and r["bt"])
    return f


def design_run_c08(work, verdict):
    with ThreadPoolExecutor(max_workers=3) as ex:
        main = ex.submit(tlc_expect_ok, work, "EncodingMC", "EncodingMC.cfg", workers=4, timeout=900)
        muts = {m: ex.submit(tlc_expect_violation, work, "EncodingMC", "EncodingMC_%s.cfg" % m,
                             "SpellingIndependent", workers=2, timeout=600)
                for m in ("case_sensitive", "raw_lookup")}
        r = main.result()
        refuted = {m: f.result().violated for m, f in muts.items()}
    verdict.coverage["states"] = r.distinct
    verdict.coverage["transitions"] = r.generated
    verdict.coverage["design_run"] = {
        "module": "EncodingMC", "distinct_states": r.distinct, "generated": r.generated,
        "invariants": ["SpellingIndependent", "NormIdempotent", "NormPreservesDecoded", "AlwaysWellFormed",
                       "OffRejects"],
        "negative_controls_refuted": refuted, "wall_s": round(r.wall, 1),
    }


def run_prop(prop, tier, seed, replay):
    verdict = Verdict(prop, tier, seed)
    work = Work(prop)
    module = TRACE_MODULE.get(prop, "RuleIndexTrace")
    import functools
    judge_m = functools.partial(_judge, module=module)
    return _run_prop(prop, tier, seed, replay, verdict, work, judge_m,
                     design_run_c08 if prop == "C08" else design_run)


def _run_prop(prop, tier, seed, replay, verdict, work, judge, design_run):
    try:
        binary = build_driver()
        if replay:
            tf = work.path("replay.ndjson")
            run_driver(binary, ["rules", "-replay", os.path.abspath(replay), "-trace", tf])
            if prop == "C03" and os.path.basename(replay).startswith("C03-enc-"):
                import functools
                judge = functools.partial(_judge, module="EncodingTrace")
            v = judge(work, tf, "_replay")
            for b in v["bad"]:
                print("VIOLATION property=%s replay=%s  # %s at line %d" % (prop, replay, b["why"], b["line"]))
            print("replayed %d lines, %d rejected" % (v["lines"], len(v["bad"])))
            return 1 if v["bad"] else 0

        profile, nq, nt = PROFILES[prop]
        n = nq if tier == "quick" else nt
        trace = work.path("trace.ndjson")
        base = ["rules", "-profile", profile, "-n", n, "-seed", seed]
        with ThreadPoolExecutor(max_workers=2) as ex:
            d = ex.submit(design_run, work, verdict) if prop == "C08" else \
                ex.submit(design_run, work, verdict, tier == "thorough")
            p = ex.submit(run_driver, binary, base + ["-trace", trace])
            d.result()
            log(p.result().strip())

        lines = read_ndjson(trace)
        # TLC judges in chunks of whole traces (bounded memory, parallel)
        chunks = split_chunks(lines, 60000)
        verdicts = []
        with ThreadPoolExecutor(max_workers=8) as ex:
            futs = []
            for i, ch in enumerate(chunks):
                path = work.path("chunk%d.ndjson" % i)
                write_ndjson(path, ch)
                futs.append((ch, ex.submit(judge, work, path, "_c%d" % i)))
            for ch, f in futs:
                verdicts.append((ch, f.result()))

        total = sum(v["lines"] for _, v in verdicts)
        if total != len(lines) or not lines:
            raise Infra("trace length mismatch: TLC consumed %d of %d" % (total, len(lines)))
        nontrivial = sum(v["nontrivial"] for _, v in verdicts)
        rejected = set()
        for ch, v in verdicts:
            rejected |= locate(ch, v["bad"])

        confirmed = rejected
        if rejected:
            log("%d events rejected in %d traces; re-executing those traces" % (
                len(rejected), len({t for t, _, _ in rejected})))
            for i in range(2):
                ids = sorted({t for t, _, _ in confirmed})
                if not ids:
                    break
                tf = work.path("repro%d.ndjson" % i)
                run_driver(binary, base + ["-trace", tf, "-only", ",".join(map(str, ids)), "-workers", 4])
                rl = read_ndjson(tf)
                confirmed = confirmed & locate(rl, judge(work, tf, "_r%d" % i)["bad"])

        known = load_known(prop)
        by_trace = {}
        for t, off, why in sorted(confirmed):
            by_trace.setdefault(t, []).append((off, why))
        for t, items in by_trace.items():
            blk = block(lines, t)
            unknown = []
            for off, why in items:
                k = match_known(known, facts_of(blk, off, why))
                if k:
                    verdict.known_finding(k)
                else:
                    unknown.append((off, why))
            if unknown:
                path = save_replay(prop, "trace%d-seed%d" % (t, seed), blk) if len(verdict.violations) < 20 \
                    else "(not saved)"
                off, why = unknown[0]
                verdict.violation(path, "%s at event %d of the trace (%d events rejected): %s" % (
                    why, off, len(unknown), json.dumps(blk[off].get("req") or {"op": blk[off].get("kind")})))

        if prop == "C03":
            encoded_captures(work, verdict, binary, tier, seed)
        if prop == "C02":
            histories_part(work, verdict, binary, tier, seed)

        selftest = binding_selftest(work, lines, judge)

        probes = [ev for ev in lines if ev["ev"] == "probe"]
        distinct = len({(ev["trace"], json.dumps(ev["req"], sort_keys=True)) for ev in probes})
        ops = [ev for ev in lines if ev["ev"] == "op"]
        verdict.coverage.update({
            "traces_validated_against_impl": sum(1 for ev in lines if ev["ev"] == "reset"),
            "evaluations": len(probes),
            "distinct_nontrivial": min(distinct, nontrivial),
            "rule": RULES[prop],
            "operations": len(ops),
            "operations_rejected_by_impl": sum(1 for ev in ops if ev["result"] == "rejected"),
            "probes": len(probes),
            "nontrivial_probes": nontrivial,
            "events_rejected_by_tlc": len(rejected),
            "reproduced": len(confirmed),
            "binding_selftest": selftest,
            "samples": sample(lines),
        })
        verdict.assumptions += [
            "host and path-param patterns come from a table with hand-written meaning; their accepted values are "
            "computed by the harness over the values occurring in the history, not by heimdall's matchers",
            "literal segments use a small alphabet chosen to force byte-level prefix splits in the radix tree",
            "same-shape expressions with different wildcard names are not generated (left open)",
        ]
        return verdict.finish()
    finally:
        work.close()


def encoded_captures(work, verdict, binary, tier, seed):
    """C03's clause on the exposed values ("exactly the matched path segments, percent-decoded, encoded
    slashes only as the rule's setting permits") over raw paths with arbitrary percent-encoding: the
    histories of the encoding profile (all encoded-slash settings, equivalent spellings, '%', '+',
    reserved octets in captured segments) judged by EncodingTrace; only what concerns the captured
    values counts here, everything else of that trace is C08's business."""
    n = 200 if tier == "quick" else 6000
    trace = work.path("enc_trace.ndjson")
    base = ["rules", "-profile", "c08", "-n", n, "-seed", seed + 31]
    log(run_driver(binary, base + ["-trace", trace]).strip())
    lines = read_ndjson(trace)

    def with_params(rl):
        """traces whose rules carry path_params: there the matched rule is a matter of C03's conditions too"""
        out = set()
        for ev in rl:
            for r in ev.get("rules") or []:
                if any(rt.get("params") for rt in r.get("routes") or []):
                    out.add(ev.get("trace"))
        return out

    def caps_only(rl, tag):
        out = set()
        for i, ch in enumerate(split_chunks(rl, 60000)):
            path = work.path("enc_chunk%s_%d.ndjson" % (tag, i))
            write_ndjson(path, ch)
            v = _judge(work, path, "_enc%s_%d" % (tag, i), module="EncodingTrace")
            wp = with_params(ch)
            out |= {(t, off, why) for t, off, why in locate(ch, v["bad"])
                    if "captures" in why or ("matched-rule-differs" in why and t in wp)}
        return out

    rejected = caps_only(lines, "")
    confirmed = rejected
    for i in range(2):
        ids = sorted({t for t, _, _ in confirmed})
        if not ids:
            break
        tf = work.path("enc_repro%d.ndjson" % i)
        run_driver(binary, base + ["-trace", tf, "-only", ",".join(map(str, ids)), "-workers", 4])
        confirmed = confirmed & caps_only(read_ndjson(tf), "_r%d" % i)
    known = load_known("C03")
    by_trace = {}
    for t, off, why in sorted(confirmed):
        by_trace.setdefault(t, []).append((off, why))
    for t, items in by_trace.items():
        blk = block(lines, t)
        off, why = items[0]
        k = match_known(known, facts_of(blk, off, why))
        if k:
            verdict.known_finding(k)
            continue
        path = save_replay("C03", "enc-trace%d-seed%d" % (t, seed), blk) if len(verdict.violations) < 20 else "(not saved)"
        verdict.violation(path, "%s at event %d of the trace (%d events rejected): %s" % (
            why, off, len(items), json.dumps(blk[off].get("req"))[:300]))
    probes = [ev for ev in lines if ev["ev"] == "probe"]
    verdict.coverage["encoded_captures"] = {
        "histories": sum(1 for ev in lines if ev["ev"] == "reset"), "probes": len(probes),
        "probes_with_captures": sum(1 for ev in probes if ev.get("hascaps")),
        "rejected": len(rejected), "reproduced": len(confirmed), "judge": "EncodingTrace (captures only)",
    }


def histories_part(work, verdict, binary, tier, seed):
    """C02 speaks of any set of loaded rules, however it came about: a sample of the histories with updates
    and deletions (the profile of C06, incl. the family built around what a removed rule may leave behind
    in the tree) is judged for the same statement; and of "additional conditions" of any sort: a sample of
    the histories whose rules carry schemes, hosts and path_params (the profile of C03)."""
    _histories_part(work, verdict, binary, seed + 17, "c06", 100 if tier == "quick" else 4000, "hist",
                    "a history with updates / deletions", "histories_with_updates_and_deletions")
    _histories_part(work, verdict, binary, seed + 23, "c03", 120 if tier == "quick" else 3000, "cond",
                    "a history of rules with scheme / host / path_params conditions",
                    "histories_with_additional_conditions")


def _histories_part(work, verdict, binary, seed, profile, n, tg, what, covkey):
    trace = work.path("%s_trace.ndjson" % tg)
    base = ["rules", "-profile", profile, "-n", n, "-seed", seed]
    log(run_driver(binary, base + ["-trace", trace]).strip())
    lines = read_ndjson(trace)

    def rejected_of(rl, tag):
        out = set()
        for i, ch in enumerate(split_chunks(rl, 60000)):
            path = work.path("%s_chunk%s_%d.ndjson" % (tg, tag, i))
            write_ndjson(path, ch)
            v = _judge(work, path, "_%s%s_%d" % (tg, tag, i))
            out |= {x for x in locate(ch, v["bad"]) if x[2].startswith("lookup") or "captures" in x[2]}
        return out

    rejected = rejected_of(lines, "")
    confirmed = rejected
    for i in range(2):
        ids = sorted({t for t, _, _ in confirmed})
        if not ids:
            break
        tf = work.path("%s_repro%d.ndjson" % (tg, i))
        run_driver(binary, base + ["-trace", tf, "-only", ",".join(map(str, ids)), "-workers", 4])
        confirmed = confirmed & rejected_of(read_ndjson(tf), "_r%d" % i)
    known = load_known("C02")
    by_trace = {}
    for t, off, why in sorted(confirmed):
        by_trace.setdefault(t, []).append((off, why))
    for t, items in by_trace.items():
        blk = block(lines, t)
        off, why = items[0]
        k = match_known(known, facts_of(blk, off, why))
        if k:
            verdict.known_finding(k)
            continue
        path = save_replay("C02", "%s-trace%d-seed%d" % (tg, t, seed), blk) if len(verdict.violations) < 20 else "(not saved)"
        verdict.violation(path, "%s at event %d of %s (%d events rejected): %s" % (
            why, off, what, len(items), json.dumps(blk[off].get("req"))[:300]))
    verdict.coverage[covkey] = {
        "histories": sum(1 for ev in lines if ev["ev"] == "reset"),
        "probes": sum(1 for ev in lines if ev["ev"] == "probe"),
        "rejected": len(rejected), "reproduced": len(confirmed),
    }


def split_chunks(lines, size):
    chunks, cur = [], []
    for ev in lines:
        if ev["ev"] == "reset" and len(cur) >= size:
            chunks.append(cur)
            cur = []
        cur.append(ev)
    if cur:
        chunks.append(cur)
    return chunks


def sample(lines):
    out = []
    for ev in lines:
        if ev["ev"] in ("reset", "op") and len(out) < 3:
            out.append(ev)
        if ev["ev"] == "probe" and ev["got"] not in ("default", "norule"):
            out.append(ev)
            break
    return out


def binding_selftest(work, lines, judge):
    """Corrupts recorded lookups; TLC must reject exactly those lines."""
    first = split_chunks(lines, 3000)[0]
    mut = copy.deepcopy(first)
    corrupted = set()
    for i, ev in enumerate(mut):
        if ev["ev"] == "probe" and ev["got"] not in ("norule",) and len(corrupted) < 40:
            ev["got"] = "no-such-rule"
            ev["positive"], ev["status"] = True, 200
            corrupted.add(i + 1)
    if not corrupted:
        raise Infra("binding self-test: nothing to corrupt")
    tf = work.path("selftest.ndjson")
    write_ndjson(tf, mut)
    v = judge(work, tf, "_self")
    got = {b["line"] for b in v["bad"]} & corrupted
    if got != corrupted:
        raise Infra("binding self-test failed: %d corrupted lookups, %d rejected" % (len(corrupted), len(got)))
    return {"corrupted": len(corrupted), "rejected": len(got)}


def c02(tier, seed, replay):
    return run_prop("C02", tier, seed, replay)


def c03(tier, seed, replay):
    return run_prop("C03", tier, seed, replay)


def c06(tier, seed, replay):
    return run_prop("C06", tier, seed, replay)


def c08(tier, seed, replay):
    return run_prop("C08", tier, seed, replay)
