"""The secrets watcher (internal/watcher): Watcher.tla checked by TLC, executions of the real watcher judged by
WatcherTrace.tla. Folded into C19 ("... nor stops a background watcher"): a watcher that loses the notification
of the last write, calls a listener that never returns or hands a listener something unwritten is reported
there; that an older reload may finish last (per-event goroutines) is recorded, not demanded."""
import copy
import json
import os
import subprocess
from concurrent.futures import ThreadPoolExecutor

import verif
from verif import Infra, log, read_ndjson, tlc, tlc_expect_ok, tlc_expect_violation, write_ndjson

PKG, TEST = "internal/watcher", "c19_watcher_test.go"


def design_run(work, tier):
    with ThreadPoolExecutor(max_workers=6) as ex:
        main = ex.submit(tlc_expect_ok, work, "WatcherMC", "WatcherMC_thorough.cfg" if tier == "thorough" else "WatcherMC_per_event.cfg",
                         workers=4, timeout=1500)
        live = ex.submit(tlc_expect_ok, work, "WatcherMC", "WatcherMC_live.cfg", workers=1, timeout=900)
        serial = ex.submit(tlc_expect_ok, work, "WatcherMC", "WatcherMC_serial.cfg", workers=1, timeout=600)
        neg = {m: ex.submit(tlc_expect_violation, work, "WatcherMC", "WatcherMC_%s.cfg" % m, inv, workers=1, timeout=600)
               for m, inv in [("overtaking", "Converged"), ("drop_while_busy", "NotifiedOfLast"),
                              ("stops_on_error", "NotifiedOfLast"), ("first_listener_only", "NotifiedOfLast")]}
        r, s = main.result(), serial.result()
        lv = live.result()
        refuted = {m: f.result().violated for m, f in neg.items()}
    return {"module": "WatcherMC", "distinct_states": r.distinct, "generated": r.generated, "wall_s": round(r.wall, 1),
            "invariants": ["TypeOK", "LoadedWasWritten", "NotifiedOfLast"],
            "liveness": {"properties": ["Drains", "Quiesces"], "distinct_states": lv.distinct, "bounds": "1 write per file, 1 error"},
            "serial_variant": {"distinct_states": s.distinct, "invariants_in_addition": ["Converged"]},
            "negative_controls_refuted": refuted,
            "note": "overtaking: heimdall's per-event variant checked against Converged - refuted on purpose (an older "
                    "reload may finish last); the other three are mutants of the watcher"}


def execute(work, seed, rounds, tag):
    tf = work.path("watcher_%s.ndjson" % tag)
    ov = work.path("overlay_watcher_%s.json" % tag)
    src = os.path.join(verif.HARNESS, "overlay", TEST)
    with open(ov, "w") as f:
        json.dump({"Replace": {os.path.join(verif.REPO, PKG, TEST): src}}, f)
    cmd = ["go", "test", "-tags", "verif", "-vet=off", "-count=1", "-overlay", ov, "-run", "^TestVerifWatcher$",
           "-timeout", "600s", "./" + PKG]
    e = verif.goenv()
    e.update({"VERIF_WATCHER_TRACE": tf, "VERIF_SEED": str(seed), "VERIF_WATCHER_ROUNDS": str(rounds)})
    p = subprocess.run(cmd, cwd=verif.REPO, env=e, capture_output=True, text=True, timeout=900)
    if p.returncode != 0 or not os.path.exists(tf):
        raise Infra("watcher driver failed (rc=%d):\n%s" % (p.returncode, (p.stdout + p.stderr)[-4000:]))
    return read_ndjson(tf)


def judge(work, lines, tag):
    tf, out = work.path("wjudge_%s.ndjson" % tag), work.path("wverdict_%s.json" % tag)
    write_ndjson(tf, lines)
    r = tlc(work, "WatcherTrace", "WatcherTrace.cfg", env={"VERIF_TRACE": tf, "VERIF_OUT": out}, workers=1, timeout=900)
    if not r.ok or not os.path.exists(out):
        raise Infra("WatcherTrace failed (%s):\n%s" % (tag, r.out[-3000:]))
    v = json.load(open(out))
    if v["lines"] != len(lines):
        raise Infra("watcher trace length mismatch: TLC consumed %d of %d" % (v["lines"], len(lines)))
    return v


def selftest(work, lines):
    """Corrupted recordings must be rejected: the calls after the last completed write of a file removed (the
    watcher lost the last notification), a read of a version nobody wrote, a call that never returns."""
    first = [e for e in lines if e["tr"] == lines[0]["tr"]]
    final = max(e["v"] for e in first if e["ev"] == "wdone" and e["f"] == "b")
    late = {e["id"] for e in first if e["ev"] == "read" and e["l"] == 3 and e["v"] == final}   # calls that saw the last version
    lost = [e for e in first if not (e["l"] == 3 and e["id"] in late)]
    unwritten = copy.deepcopy(first)
    for e in unwritten:
        if e["ev"] == "read":
            e["v"] = 99999
            break
    hung = copy.deepcopy(first)
    for i in range(len(hung) - 1, -1, -1):
        if hung[i]["ev"] == "done":
            del hung[i]
            break
    res = {}
    for name, tr, reason in [("lost", lost, "lost-last-write"), ("unwritten", unwritten, "read-unwritten-version"),
                             ("hung", hung, "listener-call-unfinished")]:
        v = judge(work, tr, "self_" + name)
        got = sorted({r for b in v["bad"] for r in b["reasons"]})
        if reason not in got:
            raise Infra("watcher binding self-test: corruption %r not rejected as %s (got %s)" % (name, reason, got))
        res[name] = got
    return res


def run_part(work, verdict, tier, seed):
    """Returns the list of (reason, facts, replay lines) that recurred; fills verdict.coverage['watcher']."""
    rounds = 40 if tier == "thorough" else 16
    with ThreadPoolExecutor(max_workers=2) as ex:
        d = ex.submit(design_run, work, tier)
        lines = execute(work, seed, rounds, "main")
        design = d.result()
    v = judge(work, lines, "main")
    reasons = sorted({r for b in v["bad"] for r in b["reasons"]})
    confirmed = []
    if reasons:
        # timing decides what a round looks like: a reason counts when it shows again in two further executions
        again = set(reasons)
        for i in range(2):
            l2 = execute(work, seed, rounds, "again%d" % i)
            v2 = judge(work, l2, "again%d" % i)
            again &= {r for b in v2["bad"] for r in b["reasons"]}
        for r in sorted(again):
            b = next(b for b in v["bad"] if r in b["reasons"])
            confirmed.append((r, {"entry": "watcher", "reason": r, "round": b["tr"]},
                              [e for e in lines if e["tr"] == b["tr"]]))
        log("watcher: reasons %s, recurring %s" % (reasons, sorted(again)))
    verdict.coverage["watcher"] = {
        "design_run": design, "events": len(lines), "rounds": v["stats"]["rounds"], "stats": v["stats"],
        "rejected_events": len(v["bad"]), "reasons": reasons, "recurring": [c[0] for c in confirmed],
        "rounds_whose_last_installed_content_is_not_the_last_written": v["stats"]["stale_final"],
        "binding_selftest": selftest(work, lines),
    }
    return confirmed
