"""C07: rule-set changes are atomic for concurrent requests and never lost (Repository.tla)."""
import json
import os
import subprocess
import time
from concurrent.futures import ThreadPoolExecutor

from verif import (EVIDENCE, REPLAYS, WORKROOT, Infra, Verdict, Work, build_driver, goenv, load_known, log, match_known,
                   read_ndjson, run_driver, save_replay, tlc_expect_ok, tlc_expect_violation, write_ndjson)

MUTANTS = {"no_kmu": "InvLocks", "in_place": "InvPublishedImmutable", "early_runlock": "InvSearchUnderLock"}


def design(work, verdict):
    with ThreadPoolExecutor(max_workers=4) as ex:
        main = ex.submit(tlc_expect_ok, work, "RepositoryMC", "RepositoryMC.cfg", workers=6, timeout=1800)
        muts = {m: ex.submit(tlc_expect_violation, work, "RepositoryMC", "RepositoryMC_%s.cfg" % m, inv,
                             workers=2, timeout=900) for m, inv in MUTANTS.items()}
        r = main.result()
        refuted = {m: f.result().violated for m, f in muts.items()}
    verdict.coverage["states"] = r.distinct
    verdict.coverage["transitions"] = r.generated
    verdict.coverage["design_run"] = {
        "module": "RepositoryMC", "constants": "2 writers x 2 operations || 2 readers x 2 lookups",
        "distinct_states": r.distinct, "generated": r.generated,
        "invariants": ["InvLocks", "InvPublishedImmutable", "InvAtomicReads", "InvNoLostUpdate",
                       "InvSearchUnderLock", "deadlock freedom"],
        "liveness": "Terminates", "negative_controls_refuted": refuted, "wall_s": round(r.wall, 1),
    }


def prove(work, verdict):
    """Unbounded part of the design argument: TLAPS proves that the lock discipline and "search under
    the read lock" are inductive for any sets of writers and readers (spec/RepositoryProof.tla, the
    guard/effect operators of Repository.tla); a variant whose TLock guard ignores the readers must
    fail. The proof is about the specification only: its outcome is recorded, it never decides the
    verdict."""
    import proofs
    verdict.coverage["unbounded_proof"] = proofs.tlaps(
        work, "RepositoryProof", ["Repository.tla"],
        "Spec => []Safe (LockDiscipline, SearchUnderLock) for any sets Writers, Readers",
        neg=("RepositoryProof.tla", "GTLock(st, w) /\\ st' = ETLock", "st.kmu = w /\\ st.tmu = None /\\ st' = ETLock",
             "TLock without the readers guard"))


def judge(work, trace, tag=""):
    out = work.path("verdict%s.json" % tag)
    tlc_expect_ok(work, "RepositoryTrace", "RepositoryTrace.cfg",
                  env={"VERIF_TRACE": trace, "VERIF_OUT": out}, workers=1, timeout=3000, heap="10g")
    return json.load(open(out))


class Crash(Exception):
    pass


def stress(binary, trace, seed, rounds, writers, readers, ops, lookups, offset=0):
    """Runs the stress driver. A fatal runtime error inside the code under test (e.g. concurrent map
    writes cannot be recovered) kills the driver: reported as Crash, everything else as Infra."""
    try:
        return run_driver(binary, ["c07", "-trace", trace, "-seed", seed, "-rounds", rounds, "-writers", writers,
                                   "-readers", readers, "-ops", ops, "-lookups", lookups, "-trace-offset", offset])
    except Infra as e:
        msg = str(e)
        if ("fatal error:" in msg or "panic:" in msg) and ("internal/rules" in msg or "radixtree" in msg):
            raise Crash(msg)
        if "STALLED:" in msg and ("internal/rules" in msg or "radixtree" in msg):
            raise Crash(msg[msg.index("STALLED:"):])
        raise


def gen_schedules(work, seed, n):
    """TLC simulates RepositorySim and prints one schedule (sequence of process/action steps) per behaviour."""
    from verif import tlc
    r = tlc(work, "RepositorySim", "RepositorySim.cfg", workers=1, timeout=1800, seed=seed,
            extra=["-simulate", "num=%d" % n, "-depth", "90"])
    out = work.path("schedules.ndjson")
    k = 0
    with open(out, "w") as f:
        for line in r.out.splitlines():
            line = line.strip()
            if line.startswith('"SCHEDULE '):
                sched = line[len('"SCHEDULE '):-1].replace('\\"', '"')
                json.loads(sched)
                f.write(sched + "\n")
                k += 1
    if k == 0:
        raise Infra("TLC produced no schedules:\n" + r.out[-2000:])
    return out, k


def replay_schedules(work, binary, sched, tag=""):
    tf = work.path("sched%s.trace.ndjson" % tag)
    log(run_driver(binary, ["c07sched", "-schedules", sched, "-trace", tf]).strip())
    return tf


def race_run(work, seed, rounds):
    """The same stress under the Go race detector; a report is a violation of the lock discipline
    (Repository!LockDiscipline / InvSearchUnderLock) observed by other means."""
    binary = build_driver(race=True)
    tf = work.path("race.trace.ndjson")
    e = goenv()
    e["VERIF_WORK"] = WORKROOT
    e["GORACE"] = "halt_on_error=0 exitcode=0"
    p = subprocess.run([binary, "c07", "-trace", tf, "-seed", str(seed + 7), "-rounds", str(rounds)],
                       capture_output=True, text=True, env=e, timeout=1800)
    out = p.stdout + p.stderr
    if p.returncode != 0:
        raise Infra("race run failed (rc=%d):\n%s" % (p.returncode, out[-3000:]))
    reports = out.count("WARNING: DATA RACE")
    return reports, out


def run(tier, seed, replay):
    verdict = Verdict("C07", tier, seed)
    work = Work("C07")
    try:
        binary = build_driver()
        if replay:
            import e2e
            if e2e.is_replay(os.path.abspath(replay)):
                return e2e.do_replay(work, replay, seed, "C07")
            # a replay file is a recorded trace: it is re-validated, and the stress is repeated
            v = judge(work, os.path.abspath(replay), "_replay")
            print("recorded trace: %d events, %d rejected" % (v["lines"], len(v["bad"])))
            tf = work.path("again.ndjson")
            log(stress(binary, tf, seed, 6, 4, 6, 60, 300).strip())
            v2 = judge(work, tf, "_again")
            for b in v2["bad"][:10]:
                print("VIOLATION property=C07 replay=%s  # %s" % (replay, b["why"]))
            return 1 if v2["bad"] else 0

        quick = tier == "quick"
        rounds, writers, readers, ops, lookups = (4, 4, 6, 60, 300) if quick else (40, 6, 8, 120, 500)
        trace = work.path("trace.ndjson")
        with ThreadPoolExecutor(max_workers=5) as ex:
            d = ex.submit(design, work, verdict)
            pf = ex.submit(prove, work, verdict)
            s = ex.submit(stress, binary, trace, seed, rounds, writers, readers, ops, lookups)
            rr = ex.submit(race_run, work, seed, 2 if quick else 12)
            sg = ex.submit(gen_schedules, work, seed, 150 if quick else 4000)
            d.result()
            pf.result()
            sched, nsched = sg.result()
            try:
                log(s.result().strip())
            except Crash as c:
                return fatal_crash(work, verdict, binary, seed, str(c), rounds, writers, readers, ops, lookups)
            races, race_out = rr.result()

        lines = read_ndjson(trace)
        chunks, cur = [], []
        for ev in lines:
            if ev["ev"] == "reset" and len(cur) > 80000:
                chunks.append(cur)
                cur = []
            cur.append(ev)
        chunks.append(cur)
        bad, nlook, consumed = [], 0, 0
        for i, ch in enumerate(chunks):
            path = work.path("chunk%d.ndjson" % i)
            write_ndjson(path, ch)
            v = judge(work, path, "_c%d" % i)
            consumed += v["lines"]
            nlook += v["nontrivial"]
            for b in v["bad"]:
                b["event"] = ch[b["line"] - 1]
                bad.append(b)
        if consumed != len(lines) or not lines:
            raise Infra("trace length mismatch")

        # pattern S: TLC-generated schedules replayed through the trace-point gates
        stf = replay_schedules(work, binary, sched)
        slines = read_ndjson(stf)
        sv = judge(work, stf, "_sched")
        if sv["lines"] != len(slines):
            raise Infra("schedule trace length mismatch")
        sched_bad = sv["bad"]
        if sched_bad:
            # deterministic replays: a rejection must repeat
            for i in range(2):
                again = judge(work, replay_schedules(work, binary, sched, "_again%d" % i), "_sched%d" % i)["bad"]
                keep = {(b["trace"], b["why"]) for b in again}
                sched_bad = [b for b in sched_bad if (b["trace"], b["why"]) in keep]
            if not sched_bad:
                raise Infra("schedule replay rejections did not repeat (not reproducible)")

        known = load_known("C07")
        for b in sched_bad[:5]:
            ev = slines[b["line"] - 1]
            if match_known(known, {"reason": b["why"]}):
                continue
            path = save_replay("C07", "schedule%d-seed%d" % (b["trace"], seed),
                               [e for e in slines if e["trace"] == b["trace"]])
            verdict.violation(path, "schedule replay: %s (%s)" % (b["why"], json.dumps(ev)[:300]))
        whys = sorted({b["why"] for b in bad})
        confirmed = set()
        if whys:
            log("rejected events: %s; repeating the stress" % whys)
            for i in range(3):
                tf = work.path("repro%d.ndjson" % i)
                stress(binary, tf, seed * 31 + i + 1, rounds, writers, readers, ops, lookups, offset=1000 * (i + 1))
                confirmed |= {b["why"] for b in judge(work, tf, "_r%d" % i)["bad"]} & set(whys)
            if not confirmed:
                raise Infra("rejected events %s did not reappear in 3 repetitions (not reproducible)" % whys)
        for why in sorted(confirmed):
            first = next(b for b in bad if b["why"] == why)
            k = match_known(known, {"reason": why})
            if k:
                verdict.known_finding(k)
                continue
            tr = first["trace"]
            path = save_replay("C07", "trace%d-seed%d" % (tr, seed), [ev for ev in lines if ev["trace"] == tr])
            verdict.violation(path, "%s (event %s)" % (why, json.dumps(first["event"])))
        if races:
            os.makedirs(REPLAYS, exist_ok=True)
            rp = os.path.join(REPLAYS, "C07-race-seed%d.txt" % seed)
            open(rp, "w").write(race_out)
            k = match_known(known, {"reason": "data-race"})
            if k:
                verdict.known_finding(k)
            else:
                verdict.violation(rp, "%d data race reports under the race detector (lock discipline)" % races)

        selftest = binding_selftest(work, chunks[0])
        ops_n = sum(1 for ev in lines if ev["ev"] == "opstart")
        rej = sum(1 for ev in lines if ev["ev"] == "opend" and ev["result"] == "rejected")
        verdict.coverage.update({
            "traces_validated_against_impl": sum(1 for ev in lines if ev["ev"] == "reset") + nsched,
            "evaluations": len(lines),
            "distinct_nontrivial": nlook,
            "rule": "free-running stress on the real repository (fx-assembled): %d writers (one source each; add / "
                    "update / delete of a two-rule set; 1 in 7 operations spoiled by an expression owned by another "
                    "rule set and must be refused as a whole) and %d readers, random delays at the trace points; "
                    "every trace point event is bound to its Repository action by TLC; evaluations = events; "
                    "non-trivial = lookups performed concurrently with changes and checked against the version "
                    "of the tree they searched (each is a distinct (reader, sequence number) observation)"
                    % (writers, readers),
            "operations": ops_n,
            "operations_rejected": rej,
            "lookups_checked": nlook,
            "events_rejected_by_tlc": len(bad),
            "race_detector_reports": races,
            "schedules_generated_by_tlc": nsched,
            "schedule_events_validated": len(slines),
            "schedule_rejections": len(sched_bad),
            "binding_selftest": selftest,
            "samples": [ev for ev in lines[:400] if ev["ev"] in ("opstart", "repo.clone", "repo.swap", "lookup")][:6],
        })
        verdict.assumptions += [
            "interleavings inside tree.Add/Delete versus a concurrent reader are covered by the identity-based "
            "immutability check and the race detector, not by schedule enumeration",
            "the Go race detector is used as an additional observer of the lock discipline the specification states",
        ]
        # composition part (spec/Heimdall*.tla): real provider goroutines + processor + repository +
        # requests in one assembled service; E1 / E2 / E4 are reported here, E3 by C18
        import e2e
        e2e.run_into(verdict, work, tier, seed, "C07")
        return verdict.finish()
    finally:
        work.close()


def fatal_crash(work, verdict, binary, seed, msg, rounds, writers, readers, ops, lookups):
    """The process died inside the repository code: repeat; it is a violation if it dies again."""
    again = 0
    for i in range(2):
        try:
            stress(binary, work.path("crash%d.ndjson" % i), seed * 31 + i + 1, rounds, writers, readers, ops, lookups)
        except Crash:
            again += 1
    if not again:
        raise Infra("driver died once inside the repository code but not in 2 repetitions:\n" + msg[-2000:])
    os.makedirs(REPLAYS, exist_ok=True)
    rp = os.path.join(REPLAYS, "C07-crash-seed%d.txt" % seed)
    open(rp, "w").write(msg)
    verdict.coverage.update({"evaluations": 1 + again, "distinct_nontrivial": 2, "traces_validated_against_impl": 0,
                             "states": 1, "transitions": 1, "rule": "stress driver terminated by a fatal runtime "
                             "error inside the repository code", "samples": [msg[-600:]]})
    what = "no progress (stuck locks)" if msg.startswith("STALLED:") else "fatal runtime error"
    verdict.violation(rp, "%s in the repository under concurrent changes and lookups (%d of 3 runs)" % (what, 1 + again))
    return verdict.finish()


def binding_selftest(work, lines):
    """Drops a hook event / corrupts a lookup; TLC must reject."""
    res = {}
    # 1. drop one repo.tlock event: the following swap is without the tree lock
    idx = next(i for i, ev in enumerate(lines) if ev["ev"] == "repo.tlock")
    mut = lines[:idx] + lines[idx + 1:]
    tf = work.path("self1.ndjson")
    write_ndjson(tf, mut[:idx + 50])
    v = judge(work, tf, "_s1")
    if not any("swap without both locks" in b["why"] for b in v["bad"]):
        raise Infra("binding self-test failed: dropped tlock event not noticed")
    res["dropped_tlock_rejected"] = True
    # 2. corrupt a lookup result
    idx = next(i for i, ev in enumerate(lines) if ev["ev"] == "lookup")
    mut = [dict(ev) for ev in lines[:idx + 1]]
    mut[idx]["got"] = mut[idx]["got"] + 5
    tf = work.path("self2.ndjson")
    write_ndjson(tf, mut)
    v = judge(work, tf, "_s2")
    if not any("lookup result" in b["why"] for b in v["bad"]):
        raise Infra("binding self-test failed: corrupted lookup not noticed")
    res["corrupted_lookup_rejected"] = True
    return res
