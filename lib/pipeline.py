"""Checks on the pipeline test bed (Pipeline.tla): C01, and the scripted parts of C04 / C12."""
import copy
import hashlib
import json
import os
from concurrent.futures import ThreadPoolExecutor

from verif import (Infra, Verdict, Work, build_driver, load_known, log, match_known, read_ndjson,
                   run_driver, save_replay, tlc, tlc_expect_ok, tlc_expect_violation, write_ndjson)

MUTANTS = ["swallow", "finalize_ignores", "no_applicable_nil", "cond_error_skips", "norule_ignored"]


def design_run(work, verdict, quick):
    """Exhaustive run of the lazy automaton + negative controls (mutant models must be refuted)."""
    with ThreadPoolExecutor(max_workers=6) as ex:
        main = ex.submit(tlc_expect_ok, work, "PipelineMC", "PipelineMC.cfg", workers=4, timeout=900)
        muts = {m: ex.submit(tlc_expect_violation, work, "PipelineMC", "PipelineMC_%s.cfg" % m,
                             "InvSafety", workers=2, timeout=600) for m in MUTANTS}
        r = main.result()
        refuted = {m: f.result().violated for m, f in muts.items()}
    verdict.coverage["states"] = r.distinct
    verdict.coverage["transitions"] = r.generated
    verdict.coverage["design_run"] = {
        "module": "PipelineMC", "distinct_states": r.distinct, "generated": r.generated,
        "invariants": ["InvSafety", "InvUpstream", "InvNoSwallow", "InvTypes", "InvNegativeStatus"],
        "liveness": "Terminates", "wall_s": round(r.wall, 1),
        "negative_controls_refuted": refuted,
    }
    if not quick and verdict.prop == "C01":
        # unbounded part (thorough tier): Safety / UpstreamOnlyIfPositive / NoSwallow for pipelines of any
        # length, any mix of steps and any error values, by TLAPS over PipelineCore!Step
        import proofs
        verdict.coverage["unbounded_proof"] = proofs.tlaps(
            work, "PipelineProof", ["PipelineCore.tla"],
            "Spec => [](Safety /\\ UpstreamOnlyIfPositive /\\ NoSwallow), items arbitrary (WellFormed), any length",
            neg=("PipelineCore.tla", "  IF ~IsNone(s.pipeErr)\n  THEN [s EXCEPT !.retErr = s.pipeErr, !.pc = \"translate\"]",
                 "  IF FALSE\n  THEN [s EXCEPT !.retErr = s.pipeErr, !.pc = \"translate\"]",
                 "Finalize ignores the pipeline error"), threads=12, timeout=2400)


def case_key(c):
    d = {k: v for k, v in c.items() if k not in ("id", "obs")}
    return hashlib.sha1(json.dumps(d, sort_keys=True).encode()).hexdigest()


def facts_of(c, reasons, exp):
    """Trigger fields of a failing case for known-finding matching (inputs and the specification's
    expectation only; `reason` names which comparison failed)."""
    eh_types = sorted({s["type"] for s in c.get("eh", [])})
    return {
        "exp_www": bool(exp.get("www")),
        "exp_class": exp.get("class"),
        "entry": c["entry"],
        "find": c["find"]["result"],
        "slash": c["find"]["slash"],
        "eh_types": ",".join(eh_types),
        "reason": ",".join(sorted(reasons)),
        "has_www": "www" in eh_types,
    }


def judge(work, trace_path, prop, tag=""):
    out = work.path("verdict%s.json" % tag)
    r = tlc_expect_ok(work, "PipelineTrace", "PipelineTrace.cfg",
                      env={"VERIF_TRACE": trace_path, "VERIF_OUT": out, "VERIF_PROP": prop},
                      workers=1, timeout=1800, heap="8g")
    v = json.load(open(out))
    v["tlc_states"] = r.distinct
    return v


def produce_paths(gen, drv_extra):
    """Default producer: PipelineGen paths executed by `verifdrv pipeline`."""
    def produce(work, binary, tier, seed):
        cases = work.path("cases.ndjson")
        genv = {"VERIF_GEN_OUT": cases}
        genv.update(gen.get(tier, {}))
        g = tlc_expect_ok(work, "PipelineGen", "PipelineGen.cfg", env=genv, seed=seed, workers=1,
                          timeout=3000, heap="12g")
        ngen = sum(1 for _ in open(cases))
        log("generated %d paths in %.1fs" % (ngen, g.wall))
        trace = work.path("trace.ndjson")
        args = ["pipeline", "-cases", cases, "-trace", trace, "-seed", seed]
        args += gen.get(tier + "_drv", [])
        args += drv_extra or []
        log(run_driver(binary, args).strip())
        return trace, ngen
    return produce


RULE_PATHS = ("cases = complete paths of the lazy Pipeline automaton enumerated by TLC (family ii, "
              "reduced alphabet, bounded stage lengths) plus TLC-seeded random paths over the full "
              "alphabet (family iii), padded and executed on the three assembled services; "
              "non-trivial = the specification's run is negative or skips at least one step; "
              "distinct = by full concrete case content")


def run(prop, tier, seed, replay=None, gen=None, drv_extra=None, facts=facts_of, design=None, produce=None,
        rule=RULE_PATHS, extra=None):
    verdict = Verdict(prop, tier, seed)
    work = Work(prop)
    try:
        binary = build_driver()
        if replay:
            return do_replay(work, verdict, binary, prop, replay, drv_extra)

        with ThreadPoolExecutor(max_workers=2) as ex:
            d = ex.submit(design or design_run, work, verdict, tier == "quick")
            pr = ex.submit(produce or produce_paths(gen or {}, drv_extra), work, binary, tier, seed)
            d.result()
            trace, ngen = pr.result()

        v = judge(work, trace, prop)
        lines = read_ndjson(trace)
        if v["lines"] != len(lines) or len(lines) == 0:
            raise Infra("trace length mismatch: TLC consumed %d of %d" % (v["lines"], len(lines)))

        known = load_known(prop)
        expected = {b["id"]: b["expected"] for b in v["bad"]}
        confirmed = []
        if v["bad"]:
            log("%d cases rejected; re-executing them in isolation" % len(v["bad"]))
            confirmed = reproduce(work, binary, prop, lines, v["bad"], drv_extra)
        nknown = 0
        for c, reasons in confirmed:
            k = match_known(known, facts(c, reasons, expected[c["id"]]))
            if k:
                verdict.known_finding(k)
                nknown += 1
            else:
                path = save_replay(prop, case_key(c)[:12], [c]) if len(verdict.violations) < 20 else "(not saved)"
                verdict.violation(path, ",".join(reasons) + " " + json.dumps(facts(c, reasons, expected[c["id"]])))

        selftest = binding_selftest(work, lines, prop)

        distinct = len({case_key(c) for c in lines})
        verdict.coverage.update({
            "traces_validated_against_impl": len(lines),
            "evaluations": len(lines),
            "distinct_nontrivial": min(distinct, v["nontrivial"]),
            "rule": rule,
            "generated_by_tlc": ngen,
            "distinct_cases": distinct,
            "nontrivial_cases": v["nontrivial"],
            "rejected_by_tlc": len(v["bad"]),
            "reproduced": len(confirmed),
            "model_divergences": len(v["div"]),
            "divergence_samples": v["div"][:3],
            "binding_selftest": selftest,
            "samples": lines[:3],
            "entries": sorted({c["entry"] for c in lines}),
        })
        verdict.assumptions += [
            "mechanisms are scripted (harness implementations of the exported mechanism interfaces); everything "
            "between them is the real code assembled by fx",
            "panics are injected in mechanisms only",
        ]
        if extra:
            extra(verdict, work, tier, seed)
        return verdict.finish()
    finally:
        work.close()


def reproduce(work, binary, prop, lines, bad, drv_extra, times=3):
    """Re-executes rejected cases in isolation; returns those rejected every time."""
    by_id = {c["id"]: c for c in lines}
    cand = [by_id[b["id"]] for b in bad]
    reasons = {b["id"]: b["reasons"] for b in bad}
    for i in range(times):
        if not cand:
            break
        cf = work.path("repro%d.ndjson" % i)
        tf = work.path("repro%d.trace.ndjson" % i)
        write_ndjson(cf, cand)
        run_driver(binary, ["pipeline", "-concrete", "-cases", cf, "-trace", tf, "-workers", 4] + (drv_extra or []))
        v = judge(work, tf, prop, tag="_r%d" % i)
        still = {b["id"]: b["reasons"] for b in v["bad"]}
        got = {c["id"]: c for c in read_ndjson(tf)}
        cand = [got[i_] for i_ in still]
        reasons = still
    return [(c, reasons[c["id"]]) for c in cand]


def binding_selftest(work, lines, prop):
    """Corrupts recorded observations and checks that TLC rejects exactly the corrupted lines."""
    mutated = []
    for c in lines:
        o = c["obs"]
        m = None
        if prop == "C01" and not o["positive"]:
            m = copy.deepcopy(c)
            m["obs"]["positive"] = True
        elif prop == "C04" and "A1" in o["exec"]:
            m = copy.deepcopy(c)
            m["obs"]["exec"] = [x for x in m["obs"]["exec"] if x != "A1"]
        elif prop == "C12" and not o["positive"] and o["status"] not in (0, 418):
            m = copy.deepcopy(c)
            m["obs"]["status"] = 418
        if m is not None:
            mutated.append(m)
        if len(mutated) >= 50:
            break
    if not mutated:
        raise Infra("binding self-test: nothing to corrupt")
    tf = work.path("selftest.ndjson")
    write_ndjson(tf, mutated)
    v = judge(work, tf, prop, tag="_self")
    if len(v["bad"]) != len(mutated):
        raise Infra("binding self-test failed: %d corrupted observations, %d rejected"
                    % (len(mutated), len(v["bad"])))
    return {"corrupted": len(mutated), "rejected": len(v["bad"])}


def do_replay(work, verdict, binary, prop, replay, drv_extra):
    tf = work.path("replay.trace.ndjson")
    run_driver(binary, ["pipeline", "-concrete", "-cases", os.path.abspath(replay), "-trace", tf, "-workers", 2]
               + (drv_extra or []))
    v = judge(work, tf, prop, tag="_replay")
    for b in v["bad"]:
        print("VIOLATION property=%s replay=%s  # %s" % (prop, replay, ",".join(b["reasons"])))
    print("replayed %d cases, %d rejected" % (v["lines"], len(v["bad"])))
    return 1 if v["bad"] else 0
