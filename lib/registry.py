"""Property id -> check function(tier, seed, replay) -> exit code."""
import pipeline

C01_GEN = {
    "quick": {"VERIF_GEN_A": 2, "VERIF_GEN_H": 1, "VERIF_GEN_F": 1, "VERIF_GEN_E": 2,
              "VERIF_GEN_RANDOM": 3000, "VERIF_GEN_RANDLEN": 4},
    "quick_drv": ["-max", "8000", "-slash"],
    "thorough": {"VERIF_GEN_A": 2, "VERIF_GEN_H": 1, "VERIF_GEN_F": 1, "VERIF_GEN_E": 2,
                 "VERIF_GEN_RANDOM": 40000, "VERIF_GEN_RANDLEN": 6},
    "thorough_drv": ["-slash"],
}


def c01(tier, seed, replay):
    return pipeline.run("C01", tier, seed, replay, gen=C01_GEN)


def c12_design(work, verdict, quick):
    from concurrent.futures import ThreadPoolExecutor
    from verif import tlc_expect_ok, tlc_expect_violation
    with ThreadPoolExecutor(max_workers=3) as ex:
        main = ex.submit(tlc_expect_ok, work, "ErrorMapMC", "ErrorMapMC.cfg", workers=4, timeout=900)
        muts = {m: ex.submit(tlc_expect_violation, work, "ErrorMapMC", "ErrorMapMC_%s.cfg" % m, "InvRank",
                             workers=2, timeout=600) for m in ("authz_before_authn", "head_only")}
        r = main.result()
        refuted = {m: f.result().violated for m, f in muts.items()}
    verdict.coverage["states"] = r.distinct
    verdict.coverage["transitions"] = r.generated
    verdict.coverage["design_run"] = {
        "module": "ErrorMapMC", "distinct_states": r.distinct, "generated": r.generated,
        "invariants": ["InvTotal", "InvNeverSuccess", "InvWrap", "InvRank", "InvGrpcHttpAgree"],
        "negative_controls_refuted": refuted, "wall_s": round(r.wall, 1),
    }


def c12_produce(work, binary, tier, seed):
    from verif import log, run_driver, tlc_expect_ok
    trees = work.path("trees.ndjson")
    nodes = 3 if tier == "quick" else 4
    tlc_expect_ok(work, "ErrorMapGen", "ErrorMapGen.cfg",
                  env={"VERIF_GEN_OUT": trees, "VERIF_GEN_NODES": nodes}, workers=1, timeout=1200)
    n = sum(1 for _ in open(trees))
    trace = work.path("trace.ndjson")
    per_tree = 3 if tier == "quick" else 5
    log(run_driver(binary, ["c12", "-trees", trees, "-trace", trace, "-seed", seed, "-per-tree", per_tree]).strip())
    return trace, n


def c12(tier, seed, replay):
    return pipeline.run(
        "C12", tier, seed, replay, design=c12_design, produce=c12_produce,
        rule="error values = all error trees up to 3 (quick) / 4 (thorough) nodes over the 9 sentinel kinds, "
             "RedirectError and foreign errors with the wrappers errorchain (1-3 elements), fmt %w and "
             "errors.Join, enumerated by TLC; each is raised by a scripted authenticator / authorizer / "
             "finalizer, or recorded / returned by an error handler, with rotating error pipelines (none, "
             "default, redirect, www_authenticate, conditional), status overrides, verbose on/off and Accept "
             "headers, through the three entry points; non-trivial = the specification's run is negative",
    )


C04_GEN = {
    "quick": {"VERIF_GEN_A": 3, "VERIF_GEN_H": 0, "VERIF_GEN_F": 0, "VERIF_GEN_E": 1,
              "VERIF_GEN_RANDOM": 1500, "VERIF_GEN_RANDLEN": 5},
    "quick_drv": ["-max", "5000"],
    "thorough": {"VERIF_GEN_A": 4, "VERIF_GEN_H": 0, "VERIF_GEN_F": 0, "VERIF_GEN_E": 1,
                 "VERIF_GEN_RANDOM": 30000, "VERIF_GEN_RANDLEN": 7},
    "thorough_drv": ["-max", "60000"],
}


def c04(tier, seed, replay):
    import c04r
    from verif import Work
    if replay and c04r.is_real_replay(replay):
        work = Work("C04")
        try:
            return c04r.do_replay(work, replay)
        finally:
            work.close()

    def real(verdict, work, tier, seed):
        # second half of the property: REAL authenticators classify missing versus rejected credentials
        _, cov = c04r.run_into(verdict, work, tier, seed)
        verdict.coverage["real_authenticators"] = cov
        verdict.coverage["traces_validated_against_impl"] += cov.get("traces_validated_against_impl", 0)
        verdict.coverage["evaluations"] += cov.get("evaluations", 0)

    return pipeline.run("C04", tier, seed, replay, gen=C04_GEN, drv_extra=["-tag"], extra=real)


def _lazy(module, fn="run"):
    def call(tier, seed, replay):
        import importlib
        return getattr(importlib.import_module(module), fn)(tier, seed, replay)
    return call


CHECKS = {
    "C01": c01,
    "C04": c04,
    "C12": c12,
}

# checks living in their own module lib/<module>.py with run(tier, seed, replay)
for _pid, _mod in {
    "C05": "c05",
    "C07": "c07",
    "C09": "c09",
    "C10": "c10",
    "C11": "c11",
    "C13": "c13",
    "C14": "c14",
    "C15": "c15",
    "C16": "c16",
    "C17": "c17",
    "C18": "c18",
    "C19": "c19",
    "C20": "c20",
}.items():
    CHECKS[_pid] = _lazy(_mod)

for _pid, _fn in {"C02": "c02", "C03": "c03", "C06": "c06", "C08": "c08"}.items():
    CHECKS[_pid] = _lazy("rules", _fn)
