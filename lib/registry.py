"""Property id -> check function(tier, seed, replay) -> exit code."""
import pipeline

C01_GEN = {
    "quick": {"VERIF_GEN_A": 2, "VERIF_GEN_H": 1, "VERIF_GEN_F": 1, "VERIF_GEN_E": 2,
              "VERIF_GEN_RANDOM": 1500, "VERIF_GEN_RANDLEN": 4},
    "quick_drv": ["-max", "6000"],
    "thorough": {"VERIF_GEN_A": 2, "VERIF_GEN_H": 1, "VERIF_GEN_F": 1, "VERIF_GEN_E": 2,
                 "VERIF_GEN_RANDOM": 40000, "VERIF_GEN_RANDLEN": 6},
    "thorough_drv": [],
}


def c01(tier, seed, replay):
    return pipeline.run("C01", tier, seed, replay, gen=C01_GEN)


CHECKS = {
    "C01": c01,
}
