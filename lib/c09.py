"""C09 - forwarded headers from untrusted peers never influence a decision (spec/Forwarded*.tla).

design run (ForwardedMC + negative controls) -> TLC-generated cases (ForwardedGen) -> real assembled
decision / proxy services driven over loopback sockets from different source addresses (c09drv),
thorough tier additionally in-package with chosen RemoteAddr (overlay) -> TLC trace validation
(ForwardedTrace) -> reproduction of rejected cases -> verdict.
"""
import copy
import hashlib
import json
import os
import sys
from concurrent.futures import ThreadPoolExecutor

from verif import (Infra, Verdict, Work, build_driver, go_test_overlay, load_known, log, match_known,
                   read_ndjson, run_driver, save_replay, tlc_expect_ok, tlc_expect_violation, write_ndjson)

PROP = "C09"
REPRO_CAP = 3
MUTANTS = ["bad_is_nil_ip", "cidr_any_family", "unset_trusts_all", "first_entry_only",
           "extract_before_strip", "strip_misses_uri", "strip_misses_path", "strip_first_line"]
INVARIANTS = ["InvTrust", "InvProperty", "InvUntrusted", "InvTrusted", "InvUpstream"]

RULE = ("cases = every subset of the seven forwarded headers (one line each, and every subset with two lines "
        "per header) x 12 trusted_proxies lists (unset, empty, exact IPv4/IPv6, CIDR, invalid entries alone and "
        "mixed) x 4 loopback peers (listed exactly, by CIDR only, unlisted IPv4, ::1) x {decision, proxy}, "
        "enumerated by TLC; header-name casing, line order, actual method and the spelling of the list entries "
        "are seeded; non-trivial = the peer sends at least one of the seven headers and the statement decides the "
        "case; distinct = by abstract case content")


def design_run(work, verdict):
    with ThreadPoolExecutor(max_workers=5) as ex:
        main = ex.submit(tlc_expect_ok, work, "ForwardedMC", "ForwardedMC.cfg", workers=4, timeout=900)
        muts = {m: ex.submit(tlc_expect_violation, work, "ForwardedMC", "ForwardedMC_%s.cfg" % m, None,
                             workers=2, timeout=600) for m in MUTANTS}
        r = main.result()
        refuted = {m: f.result().violated for m, f in muts.items()}
    verdict.coverage["states"] = r.distinct
    verdict.coverage["transitions"] = r.generated
    verdict.coverage["design_run"] = {
        "module": "ForwardedMC", "distinct_states": r.distinct, "generated": r.generated,
        "invariants": INVARIANTS, "wall_s": round(r.wall, 1), "negative_controls_refuted": refuted,
    }


def case_key(c):
    d = {k: c[k] for k in ("mode", "peer", "list", "h", "uriq", "actq", "fwdext") if k in c}
    d["far"] = c.get("far", False)
    return hashlib.sha1(json.dumps(d, sort_keys=True).encode()).hexdigest()


def facts_of(c, reasons, exp):
    """Trigger fields of a failing case (inputs and the specification's classification only)."""
    f = {
        "trust": exp.get("trust"),
        "mode": c["mode"],
        "peer_fam": c["peer"]["fam"],
        "list_set": c["list"]["set"],
        "list_kinds": ",".join(sorted({e["k"] for e in c["list"]["entries"]})),
        "list_has_bad_ip": any(e["k"] == "bad" for e in c["list"]["entries"]),
        "far": bool(c.get("far")),
        "reason": ",".join(sorted(reasons)),
        # all failed comparisons say: headers of a peer that is not listed were honoured / visible / passed on
        "reason_class": "unlisted-peer-honoured" if all(r.startswith("untrusted-") for r in reasons) else
                        ("listed-peer-view" if all(r.startswith("trusted-") for r in reasons) else "mixed"),
    }
    for n, v in c["h"].items():
        f["h_" + n] = v
    return f


def judge(work, trace_path, tag=""):
    out = work.path("verdict%s.json" % tag)
    r = tlc_expect_ok(work, "ForwardedTrace", "ForwardedTrace.cfg",
                      env={"VERIF_TRACE": trace_path, "VERIF_OUT": out}, workers=1, timeout=1800, heap="8g")
    v = json.load(open(out))
    v["tlc_states"] = r.distinct
    return v


def generate(work, seed, net="loop", rep=True, name="cases.ndjson"):
    cases = work.path(name)
    g = tlc_expect_ok(work, "ForwardedGen", "ForwardedGen.cfg",
                      env={"VERIF_GEN_OUT": cases, "VERIF_GEN_NET": net, "VERIF_GEN_REP": "1" if rep else "0"},
                      seed=seed, workers=1, timeout=1200, heap="4g")
    n = sum(1 for _ in open(cases))
    log("generated %d cases (%s) in %.1fs" % (n, net, g.wall))
    return cases, n


def run_overlay(work, binary, cases_path, trace_path, seed, concrete=False):
    """Peers that no loopback connection can have (public IPv4 / IPv6, zone-qualified link-local
    IPv6): c09drv prepares the concrete requests, the generic in-package executors
    (harness/overlay/c09_*_test.go) build the services with the unexported newService and call the
    returned handler (complete real middleware chain, rule executor, repository, mechanisms) with
    httptest requests whose RemoteAddr is chosen, c09drv projects their reports."""
    n = work.next()
    prepared, ids = work.path("prepared%d.ndjson" % n), work.path("farids%d.ndjson" % n)
    args = ["-cases", cases_path, "-prepare", prepared, "-trace", ids, "-seed", seed]
    if concrete:
        args.append("-concrete")
    log(run_driver(binary, args).strip())
    raws = []

    def one(pkg, fname, mode):
        raw = work.path("raw-%s-%d.ndjson" % (mode, n))
        rc, txt = go_test_overlay(work, pkg, [fname], "TestVerifC09",
                                  env={"VERIF_C09_PREPARED": prepared, "VERIF_C09_RAW": raw}, timeout=900)
        if rc != 0 or not os.path.exists(raw):
            raise Infra("in-package executor %s failed:\n%s" % (pkg, txt[-4000:]))
        return raw

    with ThreadPoolExecutor(max_workers=2) as ex:
        fs = [ex.submit(one, "internal/handler/decision", "c09_decision_test.go", "decision"),
              ex.submit(one, "internal/handler/proxy", "c09_proxy_test.go", "proxy")]
        raws = [f.result() for f in fs]
    allraw = work.path("raw%d.ndjson" % n)
    with open(allraw, "w") as f:
        for r in raws:
            f.write(open(r).read())
    log(run_driver(binary, ["-cases", ids, "-raw", allraw, "-trace", trace_path]).strip())


def produce(work, binary, tier, seed):
    cases, ngen = generate(work, seed)
    work.cases_path = cases
    trace = work.path("trace.ndjson")
    rounds = 1 if tier == "quick" else 6
    parts = []
    for i in range(rounds):
        part = work.path("trace%d.ndjson" % i)
        log(run_driver(binary, ["-cases", cases, "-trace", part, "-seed", seed + 1000 * i]).strip())
        parts.append(part)
    # peers no loopback connection can have (public addresses, zone-qualified link-local ones): executed
    # in-package with a chosen RemoteAddr; the quick tier takes a seeded sample of them
    far, nfar = generate(work, seed, net="any", name="farcases.ndjson")
    if tier == "quick":
        import random
        lines_far = open(far).read().splitlines()
        random.Random(seed).shuffle(lines_far)
        lines_far = lines_far[:1500]
        far = work.path("farcases-sample.ndjson")
        open(far, "w").write("\n".join(lines_far) + "\n")
        nfar = len(lines_far)
    ngen += nfar
    part = work.path("trace-far.ndjson")
    run_overlay(work, binary, far, part, seed)
    parts.append(part)
    n = 0
    with open(trace, "w") as f:
        for k, p in enumerate(parts):
            for line in open(p):
                c = json.loads(line)
                c["id"] = "r%d-%s" % (k, c["id"])
                f.write(json.dumps(c, separators=(",", ":")) + "\n")
                n += 1
    return trace, ngen


RACE_DIRS = ["app", "client", "trace", "scripted", "reqview", "c09"]
RACE_SCOPE = ("trustedproxy.", "requestcontext.", "proxy.", "decision.", "httpx.")


def race_part(work, cases, seed, n, tag=""):
    """A sample of the cases on the -race build: requests of trusted and untrusted peers are in flight
    on one service at the same time (4 per service); a data race reported in the code that strips,
    extracts and forwards the headers means that one request's trust decision or view can reach
    another request under some schedule."""
    import c1617
    binary = c1617.build("c09drv", RACE_DIRS, True)
    rl = work.path("race%s" % tag)
    tf = work.path("race%s.trace.ndjson" % tag)
    out, err, rc = c1617.run(binary, ["-cases", cases, "-trace", tf, "-seed", seed + 77, "-max", n, "-workers", 6],
                             race_log=rl, timeout=1500)
    if rc != 0:
        raise Infra("race run failed (rc=%d):\n%s" % (rc, (out + err)[-3000:]))
    reports = c1617.race_reports(rl)
    relevant, unrelated = [], []
    for r in reports:
        frames = c1617.race_frames(r)
        (relevant if any(fn.startswith(RACE_SCOPE) for fn, _ in frames) else unrelated).append((frames, r))
    return tf, relevant, unrelated


def execute_concrete(work, binary, cases, tag):
    """Re-executes recorded cases (socket cases with the driver, far cases through the overlay)."""
    near = [c for c in cases if not c.get("far")]
    far = [c for c in cases if c.get("far")]
    out = []
    if near:
        cf, tf = work.path("re%s.ndjson" % tag), work.path("re%s.trace.ndjson" % tag)
        write_ndjson(cf, near)
        run_driver(binary, ["-concrete", "-cases", cf, "-trace", tf, "-workers", 6])
        out += read_ndjson(tf)
    if far:
        cf, tf = work.path("ref%s.ndjson" % tag), work.path("ref%s.trace.ndjson" % tag)
        write_ndjson(cf, far)
        run_overlay(work, binary, cf, tf, 0, concrete=True)
        out += read_ndjson(tf)
    tf = work.path("reall%s.trace.ndjson" % tag)
    write_ndjson(tf, out)
    return tf, out


def reproduce(work, binary, lines, bad, times=3):
    by_id = {c["id"]: c for c in lines}
    cand = [by_id[b["id"]] for b in bad]
    reasons = {b["id"]: b["reasons"] for b in bad}
    for i in range(times):
        if not cand:
            break
        tf, got = execute_concrete(work, binary, cand, "_r%d" % i)
        v = judge(work, tf, tag="_r%d" % i)
        still = {b["id"]: b["reasons"] for b in v["bad"]}
        gotm = {c["id"]: c for c in got}
        cand = [gotm[i_] for i_ in still if i_ in gotm]
        reasons = still
    return [(c, reasons[c["id"]]) for c in cand]


def binding_selftest(work, lines, rejected_ids):
    """Corrupts recorded observations of accepted cases and checks that TLC rejects exactly the
    corrupted lines."""
    lines = [c for c in lines if c["id"] not in rejected_ids]
    mutated = []
    kinds = {}

    def add(kind, m):
        if kinds.get(kind, 0) < 12:
            kinds[kind] = kinds.get(kind, 0) + 1
            m["id"] = "%s-%s" % (kind, m["id"])
            mutated.append(m)

    for c in lines:
        if len(kinds) >= 9 and all(n >= 12 for n in kinds.values()):
            break
        t = c.get("trust")
        o = c["obs"]
        sent = [n for n, v in c["h"].items() if v > 0]
        if t == "no" and sent:
            m = copy.deepcopy(c); m["obs"]["view"]["host"] = "f1"; add("u-view", m)
            m = copy.deepcopy(c); m["obs"]["rule"]["path"] = "f1"; add("u-rule", m)
            m = copy.deepcopy(c); m["obs"]["ips"] = ["X1", "peer"]; add("u-ips", m)
            m = copy.deepcopy(c); m["obs"]["visible"] = [sent[0]]; add("u-visible", m)
            if c["mode"] == "proxy":
                m = copy.deepcopy(c); m["obs"]["leak"] = ["for"]; add("u-leak", m)
        elif t == "yes":
            if c["h"]["host"] > 0 and o["view"]["host"] == "f1":
                m = copy.deepcopy(c); m["obs"]["view"]["host"] = "act"; m["obs"]["rule"]["host"] = "act"; add("t-view", m)
                m = copy.deepcopy(c); m["obs"]["rule"]["host"] = "act"; add("t-rule", m)
            if c["h"]["method"] == 0:
                m = copy.deepcopy(c); m["obs"]["view"]["method"] = "f1"; m["obs"]["rule"]["method"] = "f1"; add("t-fallback", m)
            if c["h"]["for"] > 0 and c["h"]["forwarded"] == 0:
                m = copy.deepcopy(c); m["obs"]["ips"] = ["peer"]; add("t-ips", m)
    if len(kinds) < (9 if not rejected_ids else 3):
        raise Infra("binding self-test: only %s corruptible" % sorted(kinds))
    tf = work.path("selftest.ndjson")
    write_ndjson(tf, mutated)
    v = judge(work, tf, tag="_self")
    if len(v["bad"]) != len(mutated):
        raise Infra("binding self-test failed: %d corrupted observations, %d rejected" % (len(mutated), len(v["bad"])))
    return {"corrupted": len(mutated), "rejected": len(v["bad"]), "kinds": kinds}


def do_replay(work, binary, replay):
    cases = read_ndjson(os.path.abspath(replay))
    if cases and cases[0].get("ev") == "race":
        gen, _ = generate(work, 1)
        _, races, _ = race_part(work, gen, 1, 500, tag="_replay")
        for frames, _ in races[:5]:
            print("VIOLATION property=%s replay=%s  # data-race %s" % (PROP, replay, json.dumps(frames[:4])))
        print("race run repeated, %d reports in scope" % len(races))
        return 1 if races else 0
    tf, _ = execute_concrete(work, binary, cases, "_replay")
    v = judge(work, tf, tag="_replay")
    for b in v["bad"]:
        print("VIOLATION property=%s replay=%s  # %s" % (PROP, replay, ",".join(b["reasons"])))
    print("replayed %d cases, %d rejected" % (v["lines"], len(v["bad"])))
    return 1 if v["bad"] else 0


def run(tier, seed, replay=None):
    verdict = Verdict(PROP, tier, seed)
    work = Work(PROP)
    try:
        binary = build_driver(cmd="c09drv")
        if replay:
            return do_replay(work, binary, replay)

        with ThreadPoolExecutor(max_workers=2) as ex:
            d = ex.submit(design_run, work, verdict)
            pr = ex.submit(produce, work, binary, tier, seed)
            d.result()
            trace, ngen = pr.result()

        nrace = 500 if tier == "quick" else 4000
        rtrace, races, unrelated = race_part(work, work.cases_path, seed, nrace)

        v = judge(work, trace)
        lines = read_ndjson(trace)
        if v["lines"] != len(lines) or len(lines) == 0:
            raise Infra("trace length mismatch: TLC consumed %d of %d" % (v["lines"], len(lines)))

        known = load_known(PROP)
        expected = {b["id"]: b["expected"] for b in v["bad"]}
        confirmed = []
        skipped = 0
        if v["bad"]:
            # at most REPRO_CAP rejected cases per signature (mode, peer, list, failed comparisons) are
            # re-executed; the others fail in the same way and add nothing to the verdict
            by_id = {c["id"]: c for c in lines}
            per_sig, todo = {}, []
            for b in v["bad"]:
                c = by_id[b["id"]]
                sig = (c["mode"], json.dumps(c["peer"]), json.dumps(c["list"]), tuple(sorted(b["reasons"])))
                per_sig[sig] = per_sig.get(sig, 0) + 1
                if per_sig[sig] <= REPRO_CAP:
                    todo.append(b)
            skipped = len(v["bad"]) - len(todo)
            log("%d cases rejected (%d signatures); re-executing %d of them in isolation"
                % (len(v["bad"]), len(per_sig), len(todo)))
            confirmed = reproduce(work, binary, lines, todo)
        for c, reasons in confirmed:
            f = facts_of(c, reasons, expected[c["id"]])
            k = match_known(known, f)
            if k:
                verdict.known_finding(k)
            else:
                path = save_replay(PROP, case_key(c)[:12], [c]) if len(verdict.violations) < 20 else "(not saved)"
                verdict.violation(path, ",".join(reasons) + " " + json.dumps(f))

        race_cov = {"cases_on_race_build": len(read_ndjson(rtrace)), "reports_in_scope": len(races),
                    "reports_elsewhere": len(unrelated), "scope": list(RACE_SCOPE),
                    "elsewhere_sample": [f for f, _ in unrelated[:3]]}
        if races:
            # a report must come back in a second run to count
            _, again, _ = race_part(work, work.cases_path, seed + 1, nrace, tag="_again")
            race_cov["reports_in_scope_second_run"] = len(again)
            seen = set()
            for frames, report in (races if again else []):
                writers = ",".join(sorted({fn for fn, _ in frames if fn.startswith(RACE_SCOPE)}))
                if writers in seen:
                    continue
                seen.add(writers)
                f = {"reason": "data-race", "functions": writers}
                k = match_known(known, f)
                if k:
                    verdict.known_finding(k)
                    continue
                path = save_replay(PROP, "race-%s" % hashlib.sha1(writers.encode()).hexdigest()[:10],
                                   [{"ev": "race", "functions": writers, "frames": frames, "report": report[:6000]}])
                verdict.violation(path, json.dumps(f))

        selftest = binding_selftest(work, lines, {b["id"] for b in v["bad"]})

        distinct_nt = len({case_key(c) for c in lines
                           if any(x > 0 for x in c["h"].values()) and c.get("trust") != "open"})
        verdict.coverage.update({
            "traces_validated_against_impl": len(lines),
            "evaluations": len(lines),
            "distinct_nontrivial": distinct_nt,
            "rule": RULE,
            "generated_by_tlc": ngen,
            "distinct_cases": len({case_key(c) for c in lines}),
            "nontrivial_cases": v["nontrivial"],
            "rejected_by_tlc": len(v["bad"]),
            "reproduced": len(confirmed),
            "rejected_not_reexecuted_same_signature": skipped,
            "binding_selftest": selftest,
            "samples": [x for x in lines if any(n > 0 for n in x["h"].values())][:3],
            "modes": sorted({c["mode"] for c in lines}),
            "by_trust": {t: sum(1 for c in lines if c.get("trust") == t) for t in ("yes", "no", "open")},
            "far_peers": sum(1 for c in lines if c.get("far")),
            "race_detector": race_cov,
        })
        verdict.assumptions += [
            "IP addresses are abstract (family + 3 bits); the concretisation maps them to 127.0.0.8-15 and ::0-7 "
            "(loopback) or 203.0.113.8-15, 2001:db8::8-f, fe80::x%eth0 (in-package execution)",
            "header values are fixed marker values per header and line; arbitrary values are not explored",
            "the request view is read by the scripted Echo finalizer through heimdall.Context.Request()",
        ]
        return verdict.finish()
    finally:
        work.close()


if __name__ == "__main__":  # stand-alone entry: python3 lib/c09.py [--tier T] [--seed N] [--replay P]
    import argparse
    import verif
    ap = argparse.ArgumentParser()
    ap.add_argument("--tier", default="quick")
    ap.add_argument("--seed", type=int, default=1)
    ap.add_argument("--replay")
    a = ap.parse_args()
    try:
        rc = run(a.tier, a.seed, a.replay)
    except verif.Infra as e:
        print("INFRASTRUCTURE FAILURE (no verdict): %s" % e, file=sys.stderr)
        rc = 2
    except Exception:  # noqa: BLE001
        import traceback
        traceback.print_exc()
        rc = 2
    finally:
        verif.cleanup_binaries()
    sys.exit(rc)
