"""C18 - rule providers converge to the latest valid content of their sources.

spec/Provider.tla (contract + reference provider), ProviderMC (design runs, negative controls),
ProviderGen (environment histories), ProviderTrace (judges the calls the real providers make at a
recording rule.SetProcessor). The four providers are driven synchronously through their own handlers
by overlay tests (harness/overlay/c18_*_test.go + the shared package c18_common.go).
"""
import copy
import hashlib
import json
import os
import random
import re
import subprocess
import threading
import time
from concurrent.futures import ThreadPoolExecutor

import verif
from verif import Infra, Verdict, Work, load_known, log, match_known, read_ndjson, save_replay, tlc, write_ndjson

PROP = "C18"
KINDS = ["fs", "poll1", "pollN", "informer"]
PKG = {
    "fs": ("internal/rules/provider/filesystem", "c18_filesystem_test.go", "filesystem"),
    "poll1": ("internal/rules/provider/httpendpoint", "c18_httpendpoint_test.go", "httpendpoint"),
    "pollN": ("internal/rules/provider/cloudblob", "c18_cloudblob_test.go", "cloudblob"),
    "informer": ("internal/rules/provider/kubernetes", "c18_kubernetes_test.go", "kubernetes"),
}

# negative controls: (kind, mutant, strict step check, what must be violated)
MUTANTS = [
    ("fs", "store_on_refusal", True, "InvAllowed"),        # hash stored although the processor refused
    ("fs", "delete_other_id", True, "InvAllowed"),         # delete under a different id
    ("fs", "swap_created_updated", True, "InvAllowed"),
    ("fs", "invalid_unloads", True, "InvAllowed"),
    ("fs", "always_update", True, "InvAllowed"),
    ("fs", "ignore_rename", True, "InvAllowed"),
    ("fs", "remove_unchecked", False, "InvAllowed"),       # unloads what exists again (a lagging remove notification)
    ("poll1", "commerr_unloads", True, "InvAllowed"),
    ("poll1", "store_on_refusal", True, "InvAllowed"),
    ("pollN", "invalid_blocks_bucket", True, "InvAllowed"),
    ("pollN", "delete_other_id", True, "InvAllowed"),
    ("informer", "always_update", True, "InvAllowed"),
]

# generation plans: kind -> list of (nsrc, N, faults) exhaustive families + (random count, length, sources)
PLAN = {
    "quick": {
        "fs": {"exh": [(1, 3, 1), (2, 2, 1)], "rand": (300, 5, 2), "shards": 3},
        "poll1": {"exh": [(1, 3, 1), (2, 2, 1)], "rand": (600, 6, 2), "shards": 1},
        "pollN": {"exh": [(2, 2, 0), (1, 2, 1)], "rand": (100, 5, 2), "shards": 1, "refused_budget": 5},
        "informer": {"exh": [(1, 3, 1), (2, 2, 1)], "rand": (800, 6, 2), "shards": 1},
    },
    "thorough": {
        "fs": {"exh": [(1, 4, 1), (2, 2, 1)], "rand": (6000, 8, 3), "shards": 6},
        "poll1": {"exh": [(1, 4, 1), (2, 3, 1)], "rand": (6000, 10, 4), "shards": 2},
        "pollN": {"exh": [(2, 3, 0), (1, 3, 1)], "rand": (1500, 8, 3), "shards": 2, "refused_budget": 90},
        "informer": {"exh": [(1, 4, 1), (2, 3, 1)], "rand": (10000, 30, 4), "shards": 1},
    },
}

MC_ENV = {"quick": {"fs": 4, "poll1": 5, "pollN": 5, "informer": 5},
          "thorough": {"fs": 5, "poll1": 6, "pollN": 6, "informer": 6}}

RULE = ("scenario = one environment history (set valid v1/v2 | refused-by-processor | invalid | empty content, "
        "remove, rename, chmod, fetch faults refused / 5xx, processor refusing on/off, metadata-only update, "
        "foreign auth class) with provider steps placed by the history (in order, one notification, reversed, "
        "duplicated, none) on one real provider, enumerated by TLC (exhaustive families + seeded random ones); "
        "non-trivial = at least one provider step saw a removed / emptied / unreadable / refused / faulty source "
        "or a changed version of a loaded source (anything beyond first loads of valid content); distinct = by "
        "provider and full history")


def mc_cfg(work, name, kind, mutant="none", strict=True, maxenv=5, full=True):
    txt = open(work.path("ProviderMC.cfg")).read()
    txt = txt.replace('Kind = "fs"', 'Kind = "%s"' % kind).replace('Mutant = "none"', 'Mutant = "%s"' % mutant)
    txt = txt.replace("StrictDone = TRUE", "StrictDone = %s" % ("TRUE" if strict else "FALSE"))
    txt = txt.replace("MaxEnv = 5", "MaxEnv = %d" % maxenv)
    if not full:
        txt = re.sub(r"INVARIANTS.*", "INVARIANTS InvAllowed", txt)
    open(work.path(name), "w").write(txt)
    return name


def design_run(work, verdict, tier):
    def main(kind):
        cfg = mc_cfg(work, "ProviderMC_%s.cfg" % kind, kind, maxenv=MC_ENV[tier][kind])
        r = tlc(work, "ProviderMC", cfg, workers=6 if kind == "fs" else 2, timeout=1500, heap="6g")
        if not r.ok:
            raise Infra("design run ProviderMC/%s failed:\n%s" % (kind, r.out[-3000:]))
        return r

    def mutant(kind, m, strict, expect):
        cfg = mc_cfg(work, "ProviderMC_%s_%s.cfg" % (kind, m), kind, m, strict, maxenv=3, full=False)
        r = tlc(work, "ProviderMC", cfg, workers=2, timeout=900, heap="4g")
        temporal = re.findall(r"Temporal property (\S+) was violated", r.out)
        got = r.violated + temporal
        if expect not in got:
            raise Infra("negative control %s/%s was NOT refuted by TLC (got %s, expected %s):\n%s"
                        % (kind, m, got, expect, r.out[-1500:]))
        return got

    with ThreadPoolExecutor(max_workers=8) as ex:
        mains = {k: ex.submit(main, k) for k in KINDS}
        muts = {(k, m): ex.submit(mutant, k, m, s, e) for k, m, s, e in MUTANTS}
        res = {k: f.result() for k, f in mains.items()}
        refuted = {"%s/%s" % km: f.result() for km, f in muts.items()}
    verdict.coverage["states"] = sum(r.distinct for r in res.values())
    verdict.coverage["transitions"] = sum(r.generated for r in res.values())
    verdict.coverage["design_run"] = {
        "module": "ProviderMC",
        "per_kind": {k: {"distinct_states": r.distinct, "generated": r.generated, "max_env_steps": MC_ENV[tier][k],
                         "wall_s": round(r.wall, 1)} for k, r in res.items()},
        "invariants": ["InvAllowed", "InvStoredIsApplied", "InvTypes"],
        "liveness": "Converges",
        "negative_controls_refuted": refuted,
    }


def case_key(c):
    d = {k: v for k, v in c.items() if k not in ("id",)}
    return hashlib.sha1(json.dumps(d, sort_keys=True).encode()).hexdigest()


def refused_polls(c):
    """Number of provider steps a pollN scenario performs while connections are refused."""
    n, down = 0, False
    for s in c["steps"]:
        if s["op"] == "fault":
            down = s["arg"] == "refused"
        if down and s["then"] not in ("none", ""):
            n += 1
    return n + (1 if down else 0)


def generate(work, tier, seed):
    """Runs ProviderGen per kind and family; returns {kind: [cases]}."""
    plan = PLAN[tier]

    def gen(kind, idx, env):
        out = work.path("gen_%s_%d.ndjson" % (kind, idx))
        e = {"VERIF_GEN_OUT": out, "VERIF_GEN_KIND": kind}
        e.update(env)
        r = tlc(work, "ProviderGen", "ProviderGen.cfg", env=e, seed=seed, workers=1, timeout=900, heap="6g")
        if not r.ok:
            raise Infra("ProviderGen failed for %s:\n%s" % (kind, r.out[-3000:]))
        return read_ndjson(out)

    jobs = {}
    with ThreadPoolExecutor(max_workers=6) as ex:
        for kind in KINDS:
            p = plan[kind]
            for i, (nsrc, n, faults) in enumerate(p["exh"]):
                jobs[(kind, i)] = ex.submit(gen, kind, i, {"VERIF_GEN_NSRC": nsrc, "VERIF_GEN_N": n,
                                                           "VERIF_GEN_FAULTS": faults, "VERIF_GEN_RANDOM": 0,
                                                           "VERIF_GEN_RECOVER": 1 if i == 0 else 0,
                                                           "VERIF_GEN_MULTI": 1 if i == 0 else 0})
            cnt, ln, rs = p["rand"]
            jobs[(kind, 99)] = ex.submit(gen, kind, 99, {"VERIF_GEN_NSRC": 1, "VERIF_GEN_N": 0,
                                                         "VERIF_GEN_RANDOM": cnt, "VERIF_GEN_RANDLEN": ln,
                                                         "VERIF_GEN_RSRC": rs,
                                                         "VERIF_GEN_FAULTS": 0 if kind == "pollN" else 1})
        res = {k: f.result() for k, f in jobs.items()}
    cases = {}
    rng = random.Random(seed)
    for kind in KINDS:
        seen, lst = set(), []
        for (k, _i), cs in sorted(res.items()):
            if k != kind:
                continue
            for c in cs:
                key = case_key(c)
                if key in seen:
                    continue
                seen.add(key)
                lst.append(c)
        if kind == "pollN":
            # every refused poll costs ~2 s (the AWS SDK retries inside gocloud): keep a budget
            budget = plan[kind]["refused_budget"]
            slow = [c for c in lst if refused_polls(c) > 0]
            lst = [c for c in lst if refused_polls(c) == 0]
            rng.shuffle(slow)
            for c in slow:
                n = refused_polls(c)
                if n <= budget:
                    budget -= n
                    lst.append(c)
        for i, c in enumerate(lst):
            c["id"] = "%s-%d" % (kind, i + 1)
        cases[kind] = lst
    return cases


_ov_lock = threading.Lock()


def overlay_file(work):
    with _ov_lock:
        return _overlay_file(work)


def _overlay_file(work):
    ov = work.path("overlay_c18.json")
    if not os.path.exists(ov):
        rep = {os.path.join(verif.REPO, "internal/x/verifc18/common.go"):
               os.path.join(verif.HARNESS, "overlay", "c18_common.go")}
        for pkg, f, _ in PKG.values():
            rep[os.path.join(verif.REPO, pkg, f)] = os.path.join(verif.HARNESS, "overlay", f)
        for src in rep.values():
            if not os.path.exists(src):
                raise Infra("overlay source missing: " + src)
        with open(ov + ".tmp", "w") as f:
            json.dump({"Replace": rep}, f)
        os.replace(ov + ".tmp", ov)
    return ov


def execute(work, kind, cases, seed, tag):
    """Runs the overlay driver of one provider on the given scenarios; returns the trace lines."""
    if not cases:
        return []
    cf, tf = work.path("cases_%s_%s.ndjson" % (kind, tag)), work.path("trace_%s_%s.ndjson" % (kind, tag))
    write_ndjson(cf, cases)
    pkg = PKG[kind][0]
    slow = sum(refused_polls(c) for c in cases) if kind == "pollN" else 0
    timeout = 300 + len(cases) // 10 + slow * 10
    cmd = ["go", "test", "-tags", "verif", "-vet=off", "-count=1", "-overlay", overlay_file(work),
           "-run", "^TestVerifC18$", "-timeout", "%ds" % timeout, "./" + pkg]
    e = verif.goenv()
    e.update({"VERIF_WORK": verif.WORKROOT, "VERIF_C18_CASES": cf, "VERIF_C18_TRACE": tf, "VERIF_SEED": str(seed)})
    t0 = time.time()
    try:
        p = subprocess.run(cmd, cwd=verif.REPO, env=e, capture_output=True, text=True, timeout=timeout + 120)
    except subprocess.TimeoutExpired:
        raise Infra("C18 driver for %s timed out" % kind)
    out = p.stdout + p.stderr
    if p.returncode != 0 or not os.path.exists(tf):
        raise Infra("C18 driver for %s failed (rc=%d):\n%s" % (kind, p.returncode, out[-4000:]))
    lines = read_ndjson(tf)
    quiet = sum(1 for x in lines if x["ev"] == "quiet")
    if quiet != len(cases):
        raise Infra("C18 driver for %s: %d of %d scenarios completed" % (kind, quiet, len(cases)))
    log("%s: %d scenarios, %d trace lines in %.1fs" % (PKG[kind][2], len(cases), len(lines), time.time() - t0))
    return lines


def execute_sharded(work, kind, cases, seed, shards, tag):
    if shards <= 1 or len(cases) < 50:
        return execute(work, kind, cases, seed, tag)
    parts = [cases[i::shards] for i in range(shards)]
    with ThreadPoolExecutor(max_workers=shards) as ex:
        res = list(ex.map(lambda ip: execute(work, kind, ip[1], seed, "%s%d" % (tag, ip[0])), enumerate(parts)))
    return [x for part in res for x in part]


def judge(work, lines, tag):
    tf, out = work.path("judge_%s.ndjson" % tag), work.path("verdict_%s.json" % tag)
    write_ndjson(tf, lines)
    r = tlc(work, "ProviderTrace", "ProviderTrace.cfg", env={"VERIF_TRACE": tf, "VERIF_OUT": out},
            workers=1, timeout=1800, heap="8g")
    if not r.ok or not os.path.exists(out):
        raise Infra("ProviderTrace failed (%s):\n%s" % (tag, r.out[-3000:]))
    v = json.load(open(out))
    if v["lines"] != len(lines):
        raise Infra("trace length mismatch: TLC consumed %d of %d" % (v["lines"], len(lines)))
    return v


def bad_key(b):
    return (b["case"], b["r"], b["src"], b["facts"]["cb"], b["facts"]["view"])


def facts_of(b):
    f = dict(b["facts"])
    f["reason"] = b["r"]
    return f


def reproduce(work, kind, cases_by_id, bad, seed, times=2):
    """Re-executes the rejected scenarios in isolation; keeps rejections that occur every time."""
    keep = {bad_key(b): b for b in bad}
    for i in range(times):
        if not keep:
            break
        ids = sorted({k[0] for k in keep})
        lines = execute(work, kind, [cases_by_id[i_] for i_ in ids], seed, "repro%d" % i)
        v = judge(work, lines, "%s_repro%d" % (kind, i))
        again = {bad_key(b) for b in v["bad"]}
        keep = {k: b for k, b in keep.items() if k in again}
    return list(keep.values())


def split_scenarios(lines):
    cur, out = [], {}
    for x in lines:
        if x["ev"] == "reset":
            cur = []
            out[x["case"]] = cur
        cur.append(x)
    return out


def binding_selftest(work, traces, verdicts):
    """Corrupts recorded traces (drop a call, change the version of a call, duplicate a call) in scenarios TLC
    accepted and checks that TLC rejects exactly the corrupted scenarios."""
    rejected = {b["case"] for v in verdicts.values() for b in v["bad"]}
    mutated, expect, kinds = [], set(), {"drop": 0, "version": 0, "duplicate": 0}
    for kind in ("poll1", "informer", "fs", "pollN"):
        for cid, sc in split_scenarios(traces.get(kind, [])).items():
            if cid in rejected:
                continue
            idx = [i for i, x in enumerate(sc) if x["ev"] == "call" and x["cb"] != "OnDeleted" and x["ret"] == "ok"]
            if not idx:
                mutated += sc
                continue
            m = copy.deepcopy(sc)
            which = min(kinds, key=kinds.get)
            if kinds[which] >= 12:
                mutated += sc
                continue
            i = idx[-1]
            if which == "drop":
                del m[i]
            elif which == "version":
                m[i]["ver"] = "v9"
            else:
                m.insert(i, copy.deepcopy(m[i]))
            kinds[which] += 1
            expect.add(cid)
            mutated += m
            if sum(kinds.values()) >= 36:
                break
        if sum(kinds.values()) >= 36:
            break
    if not expect:
        raise Infra("binding self-test: nothing to corrupt")
    v = judge(work, mutated, "selftest")
    got = {b["case"] for b in v["bad"]} | {d["case"] for d in v["div"]}
    if got != expect:
        raise Infra("binding self-test failed: corrupted %d scenarios, TLC rejected %d (missed %s, extra %s)"
                    % (len(expect), len(got), sorted(expect - got)[:5], sorted(got - expect)[:5]))
    return {"corrupted_scenarios": len(expect), "rejected": len(got), "by_kind": kinds}


def run(tier, seed, replay=None):
    verdict = Verdict(PROP, tier, seed)
    work = Work(PROP)
    try:
        if replay:
            import e2e
            if e2e.is_replay(os.path.abspath(replay)):
                return e2e.do_replay(work, replay, seed, PROP)
            return do_replay(work, replay, seed)
        with ThreadPoolExecutor(max_workers=2) as ex:
            d = ex.submit(design_run, work, verdict, tier)
            cases = generate(work, tier, seed)
            log("generated scenarios: " + ", ".join("%s=%d" % (k, len(v)) for k, v in cases.items()))
            with ThreadPoolExecutor(max_workers=4) as ex2:
                futs = {k: ex2.submit(execute_sharded, work, k, cases[k], seed, PLAN[tier][k]["shards"], "main")
                        for k in KINDS}
                traces = {k: f.result() for k, f in futs.items()}
            with ThreadPoolExecutor(max_workers=4) as ex3:
                vfut = {k: ex3.submit(judge, work, traces[k], k) for k in KINDS}
                verdicts = {k: f.result() for k, f in vfut.items()}
            d.result()

        known = load_known(PROP)
        confirmed, rejected_n = [], 0
        for kind in KINDS:
            bad = verdicts[kind]["bad"]
            rejected_n += len(bad)
            if verdicts[kind]["div"]:
                raise Infra("recorder and model disagree: %s" % verdicts[kind]["div"][:2])
            if bad:
                by_id = {c["id"]: c for c in cases[kind]}
                log("%s: %d rejections in %d scenarios; re-executing them in isolation"
                    % (kind, len(bad), len({b["case"] for b in bad})))
                for b in reproduce(work, kind, by_id, bad, seed):
                    confirmed.append((kind, by_id[b["case"]], b))
        if os.environ.get("VERIF_C18_DUMP"):
            write_ndjson(os.environ["VERIF_C18_DUMP"], [{"case": c, "bad": b} for _k, c, b in confirmed])
        for kind, c, b in confirmed:
            k = match_known(known, facts_of(b))
            if k:
                verdict.known_finding(k)
            else:
                path = (save_replay(PROP, case_key(c)[:12], [c]) if len(verdict.violations) < 20 else "(not saved)")
                verdict.violation(path, "%s %s" % (b["r"], json.dumps(facts_of(b), sort_keys=True)))

        selftest = binding_selftest(work, traces, verdicts)

        allcases = [c for k in KINDS for c in cases[k]]
        nontrivial = {cid for k in KINDS for cid in verdicts[k]["stats"]["nontrivial"]}
        distinct_nt = len({case_key(c) for c in allcases if c["id"] in nontrivial})
        verdict.coverage.update({
            "traces_validated_against_impl": len(allcases),
            "evaluations": sum(verdicts[k]["stats"]["steps"] for k in KINDS),
            "processor_calls": sum(verdicts[k]["stats"]["calls"] for k in KINDS),
            "distinct_nontrivial": distinct_nt,
            "rule": RULE,
            "scenarios_per_provider": {PKG[k][2]: len(cases[k]) for k in KINDS},
            "trace_lines": sum(len(traces[k]) for k in KINDS),
            "rejected_by_tlc": rejected_n,
            "reproduced": len(confirmed),
            "binding_selftest": selftest,
            "samples": [x for k in KINDS for x in traces[k][:6]][:12],
        })
        verdict.assumptions += [
            "providers are driven synchronously through their own handlers (ruleSetsChanged, watchChanges, informer "
            "callbacks behind the FilteringResourceEventHandler wiring of newController); scheduler / watcher "
            "goroutines themselves are not exercised",
            "file system events are the kernel's (captured from a real fsnotify watcher); reversed / duplicated "
            "deliveries are produced by the driver",
            "S3 is the in-process gofakes3 the repository's tests use; the Kubernetes API is a fake client",
            "the processor is a recording rule.SetProcessor that refuses content marked 'bad' or everything while told "
            "to refuse",
        ]
        scheduled_polls(work, verdict)
        # composition part (spec/Heimdall*.tla): the watcher / scheduler goroutines of the file_system and
        # http_endpoint providers in an assembled service; E3 (convergence) is reported here
        import e2e
        e2e.run_into(verdict, work, tier, seed, PROP)
        return verdict.finish()
    finally:
        work.close()


SCENARIOS = {
    # name -> (test, environment variable with the output file, package key, provider)
    "sched": ("TestVerifC18Scheduler", "VERIF_C18_SCHED", "pollN", "cloudblob"),
    "life": ("TestVerifC18Lifecycle", "VERIF_C18_LIFE", "informer", "kubernetes"),
}


def run_sched(work, tag, scenario="sched"):
    """sched: the cloud_blob provider with its own scheduler against a bucket whose poll outlasts watch_interval.
    life: the kubernetes provider started with a context that ends after the start phase, rule sets appearing later."""
    test, var, pkg, _ = SCENARIOS[scenario]
    out = work.path("%s_%s.ndjson" % (scenario, tag))
    cmd = ["go", "test", "-tags", "verif", "-vet=off", "-count=1", "-overlay", overlay_file(work),
           "-run", "^%s$" % test, "-timeout", "120s", "./" + PKG[pkg][0]]
    e = verif.goenv()
    e.update({"VERIF_WORK": verif.WORKROOT, var: out})
    p = subprocess.run(cmd, cwd=verif.REPO, env=e, capture_output=True, text=True, timeout=300)
    if p.returncode != 0 or not os.path.exists(out):
        raise Infra("C18 %s scenario failed (rc=%d):\n%s" % (scenario, p.returncode, (p.stdout + p.stderr)[-3000:]))
    return out


def judge_sched(work, tf, tag):
    out = work.path("verdict_sched_%s.json" % tag)
    r = tlc(work, "ProviderSchedTrace", "ProviderSchedTrace.cfg", env={"VERIF_TRACE": tf, "VERIF_OUT": out},
            workers=1, timeout=300)
    if not r.ok or not os.path.exists(out):
        raise Infra("ProviderSchedTrace failed:\n" + r.out[-2000:])
    return json.load(open(out))


def scheduled_polls(work, verdict):
    for scenario in ("sched", "life"):
        own_goroutine(work, verdict, scenario)


def own_goroutine(work, verdict, scenario):
    prov = SCENARIOS[scenario][3]
    covkey = {"sched": "scheduled_polls", "life": "changes_after_the_start_phase"}[scenario]
    tf = run_sched(work, "main", scenario)
    v = judge_sched(work, tf, scenario + "main")
    ev = read_ndjson(tf)
    verdict.coverage[covkey] = {"scenarios": ev, "rejected": len(v["bad"])}
    if not v["bad"]:
        return
    reasons = {r for b in v["bad"] for r in b["reasons"]}
    # timing decides here: a rejection counts when the same comparison fails in two further executions
    for n in range(2):
        tf2 = run_sched(work, "r%d" % n, scenario)
        again = {r for b in judge_sched(work, tf2, "%sr%d" % (scenario, n))["bad"] for r in b["reasons"]}
        reasons &= again
        if not reasons:
            log("%s scenario: rejection not reproduced (%s)" % (scenario, json.dumps(ev)))
            verdict.coverage[covkey]["unreproduced"] = True
            return
    known = load_known(PROP)
    facts = {"kind": scenario, "prov": prov, "r": ",".join(sorted(reasons))}
    k = match_known(known, facts)
    if k:
        verdict.known_finding(k)
    else:
        verdict.violation(save_replay(PROP, "%s-%s" % (scenario, prov), ev), "%s %s" % (facts["r"], json.dumps(facts, sort_keys=True)))


def do_replay(work, replay, seed):
    cases = read_ndjson(os.path.abspath(replay))
    known = load_known(PROP)
    nbad = 0
    # scenarios of the providers' own goroutines: executed again as they are
    for scenario in SCENARIOS:
        if any(c.get("kind", "sched") == scenario and "polls" in c or c.get("kind") == scenario for c in cases):
            tf = run_sched(work, "replay", scenario)
            for b in judge_sched(work, tf, scenario + "replay")["bad"]:
                nbad += 1
                print("VIOLATION property=%s replay=%s  # %s" % (PROP, replay, ",".join(b["reasons"])))
            print("replayed the %s scenario" % scenario)
    cases = [c for c in cases if c.get("kind") in KINDS]
    for kind in KINDS:
        cs = [c for c in cases if c["kind"] == kind]
        if not cs:
            continue
        lines = execute(work, kind, cs, seed, "replay")
        v = judge(work, lines, "replay_" + kind)
        for b in v["bad"]:
            k = match_known(known, facts_of(b))
            if k:
                print("KNOWN-FINDING: property=%s %s" % (PROP, k["what"]))
            else:
                nbad += 1
                print("VIOLATION property=%s replay=%s  # %s %s" % (PROP, replay, b["r"],
                                                                      json.dumps(facts_of(b), sort_keys=True)))
        print("replayed %d scenarios on %s, %d rejections" % (len(cs), PKG[kind][2], len(v["bad"])))
    return 1 if nbad else 0
