"""C05 - JWT authentication accepts exactly the correctly signed, asserted tokens.

spec/JwtAccept.tla (decision table = the property statement), JwtAcceptMC (design run + negative
controls), JwtAcceptGen (abstract token x key set x assertion space), harness/c05 + cmd/c05drv (real
jwt authenticator from the real mechanism factory, tokens really signed with the key fixtures, local
JWKS server, mutation catalogue on valid tokens), JwtAcceptTrace (TLC judges every recorded case).
"""
import copy
import hashlib
import json
import os
import sys
from concurrent.futures import ThreadPoolExecutor

from verif import (ROOT, Infra, Verdict, Work, build_driver, load_known, log, match_known, read_ndjson,
                   run_driver, save_replay, tlc_expect_ok, tlc_expect_violation, write_ndjson)

PROP = "C05"
FIXTURES = os.path.join(ROOT, "fixtures", "jwt")

# mutant model -> invariant that must refute it
MUTANTS = {
    "alg_agreement_dropped": "InvAlgKey",
    "allowed_not_asserted": "InvAlgAllowed",
    "leeway_sign": "InvRefines",
    "expiry_unchecked": "InvValidity",
    "merge_inverted": None,
    "audience_skipped": "InvAudience",
    "kid_first_match": "InvKidUnique",
}
INVARIANTS = ["InvTypes", "InvSignature", "InvUnsigned", "InvAlgKey", "InvAlgAllowed", "InvIssuer",
              "InvAudience", "InvScopes", "InvValidity", "InvKidUnique", "InvMerge", "InvRefines", "InvVerdict"]

RULE = ("cases = abstract token x key set x mechanism assertions x rule-level override enumerated by TLC "
        "(JwtAcceptGen: full product of signature / alg / kid / key-set shape / allowed algorithms per key "
        "type and algorithm, full products of each claim with its two assertion levels, cross products), each "
        "constructed by really signing with the key fixtures (RSA 2048/3072/4096 x RS/PS 256/384/512, EC "
        "P-256/384/521), plus the mutation catalogue applied to valid tokens (byte flips in each part, part "
        "swaps, truncations, alg rewrites to none / HMAC keyed with public material / other family, kid "
        "rewrites, re-signing with another key, duplicated / missing parts, payload tampering); distinct = by "
        "abstract case content and mutation name; non-trivial = the specification demands rejection, or "
        "acceptance under a rule-level override or with more than one published key")


def design_run(work, verdict, tier):
    # quick: claims family pruned by independence (Full = FALSE); thorough: its full product
    cfg = "JwtAcceptMC.cfg" if tier == "quick" else "JwtAcceptMC_full.cfg"
    with ThreadPoolExecutor(max_workers=4) as ex:
        main = ex.submit(tlc_expect_ok, work, "JwtAcceptMC", cfg, workers=6, timeout=900)
        vac = ex.submit(tlc_expect_violation, work, "JwtAcceptMC", "JwtAcceptMC_vacuity.cfg", "SomeAccepted",
                        workers=1, timeout=600)
        muts = {m: ex.submit(tlc_expect_violation, work, "JwtAcceptMC", "JwtAcceptMC_%s.cfg" % m, inv,
                             workers=1, timeout=600) for m, inv in MUTANTS.items()}
        r = main.result()
        vac.result()
        refuted = {m: f.result().violated for m, f in muts.items()}
    verdict.coverage["states"] = r.distinct
    verdict.coverage["transitions"] = r.generated
    verdict.coverage["design_run"] = {
        "module": "JwtAcceptMC", "config": cfg, "distinct_states": r.distinct, "generated": r.generated,
        "invariants": INVARIANTS, "liveness": "Terminates", "wall_s": round(r.wall, 1),
        "negative_controls_refuted": refuted,
        "vacuity_control": "acceptance is reachable (SomeAccepted refuted)",
    }


def produce(work, binary, tier, seed):
    cases = work.path("cases.ndjson")
    g = tlc_expect_ok(work, "JwtAcceptGen", "JwtAcceptGen.cfg",
                      env={"VERIF_GEN_OUT": cases, "VERIF_GEN_TIER": tier}, workers=1, timeout=3000, heap="8g")
    ngen = sum(1 for _ in open(cases))
    log("generated %d abstract cases in %.1fs" % (ngen, g.wall))
    trace = work.path("trace.ndjson")
    args = ["-cases", cases, "-trace", trace, "-seed", seed, "-fixtures", FIXTURES, "-workers", 12]
    if tier == "thorough":
        args += ["-allflips", "-scopereps", 32]
    out = run_driver(binary, args).strip()
    log(out)
    stats = json.loads(out.split(" ", 2)[2]) if out.startswith("EXECUTED") else {}
    return trace, ngen, stats


def judge(work, trace_path, tag=""):
    out = work.path("verdict%s.json" % tag)
    r = tlc_expect_ok(work, "JwtAcceptTrace", "JwtAcceptTrace.cfg",
                      env={"VERIF_TRACE": trace_path, "VERIF_OUT": out}, workers=1, timeout=1800, heap="8g")
    v = json.load(open(out))
    v["tlc_states"] = r.distinct
    return v


def case_key(c):
    d = {k: c[k] for k in ("fam", "j", "mech", "rule", "mut")}
    d["t"] = {k: v for k, v in c["t"].items() if k != "sub"}
    return hashlib.sha1(json.dumps(d, sort_keys=True).encode()).hexdigest()


def mut_class(name):
    f = name.split(":")
    if f[0] in ("flip", "rawsub"):
        return ":".join(f[:2])
    return name


def key_type(name):
    return "rsa" if name.startswith("rsa") else ("ec" if name.startswith("ec") else name)


def facts_of(c, reasons, expected):
    """Trigger fields of a failing case (inputs and the specification's verdict) + the failed comparison."""
    t = c["t"]
    return {
        "fam": c["fam"],
        "mut": mut_class(c["mut"]),
        "expected": expected,
        "reason": ",".join(sorted(reasons)),
        "alg": t["alg"],
        "signed_by": key_type(t["signedBy"]),
        "kid": "absent" if t["kid"] == "absent" else "present",
        "keys_published": len(c["j"]),
        "key_algs": ",".join(e["alg"] for e in c["j"]),
        "certs": ",".join(sorted({e["cert"] for e in c["j"]})),
        "rule_override": ",".join(k for k in ("iss", "aud", "scp", "algs", "leeway") if c["rule"][k]),
        "has_exp": bool(t["exp"]), "has_nbf": bool(t["nbf"]),
    }


def nontrivial(c):
    r = c["rule"]
    override = bool(r["iss"] or r["aud"] or r["scp"] or r["algs"] or r["leeway"])
    return (not c["obs"]["accepted"]) or override or len(c["j"]) > 1


def reproduce(work, binary, seed, lines, bad, times=3):
    by_id = {c["id"]: c for c in lines}
    cand = [by_id[b["id"]] for b in bad]
    info = {b["id"]: b for b in bad}
    for i in range(times):
        if not cand:
            break
        cf = work.path("repro%d.ndjson" % i)
        tf = work.path("repro%d.trace.ndjson" % i)
        write_ndjson(cf, cand)
        run_driver(binary, ["-concrete", "-cases", cf, "-trace", tf, "-seed", seed, "-fixtures", FIXTURES,
                            "-workers", 4])
        v = judge(work, tf, tag="_r%d" % i)
        info = {b["id"]: b for b in v["bad"]}
        got = {c["id"]: c for c in read_ndjson(tf)}
        cand = [got[i_] for i_ in info]
    return [(c, info[c["id"]]) for c in cand]


def binding_selftest(work, lines):
    """Corrupts recorded observations; TLC must reject exactly the corrupted lines."""
    mutated = []
    for kind in ("accept_a_rejected", "foreign_subject", "foreign_attributes", "drop_acceptance"):
        n = 0
        for c in lines:
            o = c["obs"]
            m = copy.deepcopy(c)
            if kind == "accept_a_rejected" and not o["accepted"] and c["mut"] != "none":
                # a mutant must be rejected by construction: claim it was accepted, with a perfect subject
                m["obs"].update(accepted=True, sub=c["t"]["sub"], attrs=c["claims"], kind="")
            elif kind == "foreign_subject" and o["accepted"]:
                m["obs"]["sub"] = "intruder"
            elif kind == "foreign_attributes" and o["accepted"]:
                m["obs"]["attrs"] = m["obs"]["attrs"].replace('"sub":"', '"sub":"x')
            elif kind == "drop_acceptance" and o["accepted"] and c["fam"] == "base" and c["mut"] == "none":
                m["obs"].update(accepted=False, sub="", attrs="", kind="authn")
            else:
                continue
            m["id"] = "%s-%s" % (c["id"], kind)
            mutated.append(m)
            n += 1
            if n >= 25:
                break
    if len(mutated) < 4:
        raise Infra("binding self-test: nothing to corrupt")
    tf = work.path("selftest.ndjson")
    write_ndjson(tf, mutated)
    v = judge(work, tf, tag="_self")
    if len(v["bad"]) != len(mutated):
        raise Infra("binding self-test failed: %d corrupted observations, %d rejected" % (len(mutated), len(v["bad"])))
    return {"corrupted": len(mutated), "rejected": len(v["bad"]),
            "kinds": ["accept_a_rejected", "foreign_subject", "foreign_attributes", "drop_acceptance"]}


def do_replay(work, binary, seed, replay):
    tf = work.path("replay.trace.ndjson")
    run_driver(binary, ["-concrete", "-cases", os.path.abspath(replay), "-trace", tf, "-seed", seed,
                        "-fixtures", FIXTURES, "-workers", 2])
    v = judge(work, tf, tag="_replay")
    for b in v["bad"]:
        print("VIOLATION property=%s replay=%s  # %s" % (PROP, replay, ",".join(b["reasons"])))
    print("replayed %d cases, %d rejected" % (v["lines"], len(v["bad"])))
    return 1 if v["bad"] else 0


def run(tier, seed, replay=None):
    verdict = Verdict(PROP, tier, seed)
    work = Work(PROP)
    try:
        if not os.path.isdir(FIXTURES):
            raise Infra("key fixtures missing: %s" % FIXTURES)
        binary = build_driver(cmd="c05drv")
        if replay:
            return do_replay(work, binary, seed, replay)

        with ThreadPoolExecutor(max_workers=2) as ex:
            d = ex.submit(design_run, work, verdict, tier)
            pr = ex.submit(produce, work, binary, tier, seed)
            d.result()
            trace, ngen, stats = pr.result()

        v = judge(work, trace)
        lines = read_ndjson(trace)
        if v["lines"] != len(lines) or not lines:
            raise Infra("trace length mismatch: TLC consumed %d of %d" % (v["lines"], len(lines)))
        counts = v["counts"]
        if min(counts["accept"], counts["reject"], counts["open"]) == 0:
            raise Infra("vacuous run: verdict classes %s" % counts)
        accepted = sum(1 for c in lines if c["obs"]["accepted"])
        if accepted == 0:
            raise Infra("vacuous run: the real authenticator accepted nothing")

        known = load_known(PROP)
        confirmed = []
        if v["bad"]:
            log("%d cases rejected by TLC; re-executing them in isolation" % len(v["bad"]))
            confirmed = reproduce(work, binary, seed, lines, v["bad"])
        for c, b in confirmed:
            facts = facts_of(c, b["reasons"], b["expected"])
            k = match_known(known, facts)
            if k:
                verdict.known_finding(k)
            else:
                path = (save_replay(PROP, case_key(c)[:12], [c]) if len(verdict.violations) < 20
                        else "(not saved)")
                verdict.violation(path, ",".join(b["reasons"]) + " " + json.dumps(facts))

        selftest = binding_selftest(work, lines)

        distinct = {case_key(c) for c in lines}
        nontriv = {case_key(c) for c in lines if nontrivial(c)}
        kinds = {}
        for c in lines:
            if not c["obs"]["accepted"]:
                kinds[c["obs"]["kind"]] = kinds.get(c["obs"]["kind"], 0) + 1
        sample = [c for c in lines if c["fam"] == "crypto"][:1] + [c for c in lines if c["mut"] != "none"][:1] \
            + [c for c in lines if c["obs"]["accepted"] and c["fam"] == "time"][:1]
        verdict.coverage.update({
            "traces_validated_against_impl": len(lines),
            "evaluations": len(lines),
            "distinct_nontrivial": len(nontriv),
            "rule": RULE,
            "generated_by_tlc": ngen,
            "distinct_cases": len(distinct),
            "mutants_of_valid_tokens": stats.get("mutants", 0),
            "spec_verdicts": counts,
            "accepted_by_impl": accepted,
            "open_cases_accepted_by_impl": counts["openAccepted"],
            "rejection_error_kinds": kinds,
            "jwks_requests": stats.get("jwks_requests"),
            "catalogue_mechanisms": stats.get("mechanisms"),
            "rejected_by_tlc": len(v["bad"]),
            "reproduced": len(confirmed),
            "binding_selftest": selftest,
            "samples": sample,
            "key_fixtures": sorted(f[:-4] for f in os.listdir(FIXTURES) if f.endswith(".pem")),
        })
        verdict.assumptions += [
            "signature verification itself (go-jose, Go crypto) is trusted: 'verifies with key k' is established "
            "by construction of the token",
            "the authenticator is created by the real mechanism factory of an fx-assembled heimdall and executed "
            "directly (Execute on a real request context); the rule-level override is passed the way a rule's "
            "`config` is",
            "left open: tokens without exp, iat in the future, JWKs without alg or with an untrusted "
            "certificate, key selection when the kid-selected key is not the unique verifying one, changes of "
            "unused trailing bits of a base64 part (never generated), time offsets closer than 5 s to a "
            "threshold (never generated)",
        ]
        return verdict.finish()
    finally:
        work.close()


if __name__ == "__main__":
    import argparse
    import verif
    ap = argparse.ArgumentParser()
    ap.add_argument("--tier", default="quick")
    ap.add_argument("--seed", type=int, default=1)
    ap.add_argument("--replay")
    a = ap.parse_args()
    try:
        rc = run(a.tier, a.seed, a.replay)
    except Infra as e:
        print("INFRASTRUCTURE FAILURE (no verdict): %s" % e, file=sys.stderr)
        rc = 2
    finally:
        verif.cleanup_binaries()
    sys.exit(rc)
