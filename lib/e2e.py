"""e2e - the composition check: rule providers' own goroutines + rule-set processor + repository +
request pipeline in ONE assembled service while requests are in flight.

Closes the gap between C07 (Repository.tla, repository and processor driven directly) and C18
(Provider.tla, providers' handlers called synchronously). Properties (spec/HeimdallOps.tla):
  E1 response = a rule version current at some instant of the request        -> C07
  E2 a rule present in old and new version is never missing during the update -> C07
  E4 no version regression between requests ordered in real time             -> C07
  E3 at quiescence: latest valid content loaded, invalid keeps, removed unloads -> C18

Specification: spec/HeimdallOps.tla (contract), spec/Heimdall.tla (the composition), HeimdallMC
(design runs + negative controls), HeimdallGen (environment histories), HeimdallTrace (judge).
Driver: harness/e2e + harness/cmd/e2edrv.

Stand-alone:   python3 lib/e2e.py --tier quick --seed 1        (evidence/E2E.json)
Folded in:     e2e.run_into(verdict, work, tier, seed, "C07" | "C18")
"""
import copy
import json
import os
import random
import re
import sys
import time
from concurrent.futures import ThreadPoolExecutor

sys.path.insert(0, os.path.dirname(os.path.abspath(__file__)))

import c1617  # noqa: E402
import verif  # noqa: E402
from verif import (Infra, Verdict, Work, load_known, log, match_known, read_ndjson, save_replay, tlc,  # noqa: E402
                   write_ndjson)

PROP = "E2E"
# many TLC processes run side by side: keep each JVM's collector small
JVM = {"JAVA_TOOL_OPTIONS": "-XX:ParallelGCThreads=2"}
DIRS = ["app", "scripted", "trace", "e2e"]

E1 = ["e2e-version-older-than-acknowledged", "e2e-response-of-no-current-version"]
E2 = ["e2e-rule-missing-during-update"]
E3 = ["e2e-latest-version-not-loaded", "e2e-removed-source-still-served",
      "e2e-invalid-content-changed-the-active-version"]
E4 = ["e2e-version-regression"]
BINDING = ["e2e-no-final-acknowledgement", "e2e-ack-not-of-the-last-write", "e2e-trace-write-out-of-order"]
REASONS = {"C07": E1 + E2 + E4, "C18": E3, PROP: E1 + E2 + E3 + E4}
PROPERTY_OF = dict([(r, "E1") for r in E1] + [(r, "E2") for r in E2] + [(r, "E3") for r in E3] + [(r, "E4") for r in E4])

# design runs: (cfg, quick, what it is); thorough replaces MaxEnv by the second number
DESIGN = [
    ("HeimdallMC_v3.cfg", 3, 4, "file source rewritten (new versions, truncations, in place: torn reads), 1 source up to "
     "3 versions, 2 requests"),
    ("HeimdallMC_poll.cfg", 2, 3, "endpoints (polls), 2 sources, 2 requests"),
    ("HeimdallMC.cfg", 2, 3, "file sources (notifications), 2 sources, 2 requests"),
    ("HeimdallMC_stamped.cfg", 2, 2, "observer with counter stamps (as in recorded traces), 1 source"),
    ("HeimdallMC_live.cfg", 2, 2, "liveness Converges + action property InvalidKeeps, file source"),
    ("HeimdallMC_live_poll.cfg", 2, 2, "liveness Converges + action property InvalidKeeps, endpoint"),
    ("HeimdallMC_live_v3.cfg", 3, 3, "liveness Converges with files rewritten in place (torn reads), thorough tier"),
]
THOROUGH_ONLY = ("HeimdallMC_live_poll.cfg", "HeimdallMC_live_v3.cfg")
# negative controls: (cfg, what TLC must report)
CONTROLS = [
    ("HeimdallMC_delete_add.cfg", "CtrE2"), ("HeimdallMC_delete_add_state.cfg", "InvE2"),
    ("HeimdallMC_concurrent_handlers.cfg", "CtrE4"), ("HeimdallMC_concurrent_handlers_state.cfg", "InvE4"),
    ("HeimdallMC_lost_final.cfg", "CtrE3Latest"), ("HeimdallMC_lost_final_state.cfg", "InvE3"),
    ("HeimdallMC_invalid_unloads.cfg", "CtrE3Invalid"), ("HeimdallMC_invalid_unloads_state.cfg", "InvalidKeeps"),
    ("HeimdallMC_lookup_cache.cfg", "CtrE1"), ("HeimdallMC_lookup_cache_state.cfg", "InvE1"),
    ("HeimdallMC_remove_ignored.cfg", "CtrE3Removed"), ("HeimdallMC_remove_ignored_state.cfg", "InvE3"),
    # not a wrong composition but a stricter contract: without the torn-read clause the reference composition
    # (whose provider may read a file while it is rewritten in place) is rejected
    ("HeimdallMC_contract_without_torn_reads.cfg", "InvContract"),
]

PARAMS = {
    # gen: TLC generation; pick: histories executed per family (seeded sample); drv: driver flags
    "quick": dict(gen={"VERIF_GEN_N": 2, "VERIF_GEN_RANDOM": 60, "VERIF_GEN_RANDLEN": 8, "VERIF_GEN_UPD": 4},
                  pick={"exh": 30, "upd": 32, "burst": 8, "pre": 16, "rand": 26}, parallel=6, requests=4, judges=4),
    "thorough": dict(gen={"VERIF_GEN_N": 3, "VERIF_GEN_RANDOM": 500, "VERIF_GEN_RANDLEN": 12, "VERIF_GEN_UPD": 6},
                     pick={"exh": 400, "upd": 240, "burst": 8, "pre": 120, "rand": 300}, parallel=8, requests=4, judges=6),
}

RULE = ("run = one TLC-generated environment history (valid versions v1.. / empty / invalid (not YAML, unknown "
        "mechanism, unsupported rule-set version) / removed; file sources written by rename-into-the-directory or "
        "truncate+write; with or without waiting for the acknowledgement; content present at start-up) executed on "
        "one fx-assembled decision service with file_system (watch) and / or http_endpoint (watch_interval) "
        "providers configured in its configuration file, one writer goroutine per source, request goroutines running "
        "continuously; evaluation = one judged request or acknowledgement; non-trivial = a request whose window "
        "admits more than one active version (it overlaps a change not yet acknowledged); distinct = by (history, "
        "request number)")


# ------------------------------------------------------------------ design runs

def design_run(work, tier):
    quick = tier == "quick"

    def cfg_for(name, q, t):
        if quick or q == t:
            return name
        txt = open(work.path(name)).read().replace("MaxEnv = %d" % q, "MaxEnv = %d" % t)
        out = name.replace(".cfg", "_thorough.cfg")
        open(work.path(out), "w").write(txt)
        return out

    def main(name, q, t, what):
        r = tlc(work, "HeimdallMC", cfg_for(name, q, t), workers=(5 if "v3" in name or "poll" in name else 2) if quick else 6, timeout=2400, heap="8g", env=JVM)
        if not r.ok:
            raise Infra("design run HeimdallMC/%s failed:\n%s" % (name, r.out[-3000:]))
        return {"cfg": name, "what": what, "max_env_steps": q if quick else t, "distinct_states": r.distinct,
                "generated": r.generated, "wall_s": round(r.wall, 1)}

    def control(name, expect):
        r = tlc(work, "HeimdallMC", name, workers=1, timeout=900, heap="4g", env=JVM)
        got = r.violated + re.findall(r"(?:Action|Temporal) property (\S+) (?:is|was) violated", r.out)
        if expect not in got:
            raise Infra("negative control %s was NOT refuted by TLC (got %s, expected %s):\n%s"
                        % (name, got, expect, r.out[-1500:]))
        return expect

    # quick: the controls stated on the contract (what judges the real traces); thorough: also the same mutants
    # against the properties stated on the composition's own state, and the liveness run for endpoints
    designs = [d for d in DESIGN if not (quick and d[0] in THOROUGH_ONLY)]
    controls = [(c, e) for c, e in CONTROLS if not (quick and c.endswith("_state.cfg"))]
    with ThreadPoolExecutor(max_workers=8 if quick else 6) as ex:
        mains = [ex.submit(main, *d) for d in designs]
        ctrls = {c: ex.submit(control, c, e) for c, e in controls}
        res = [f.result() for f in mains]
        refuted = {c.replace("HeimdallMC_", "").replace(".cfg", ""): f.result() for c, f in ctrls.items()}
    return {
        "module": "HeimdallMC (Heimdall.tla: environment || provider || repository || requests || observer)",
        "runs": res,
        "states": sum(r["distinct_states"] for r in res),
        "transitions": sum(r["generated"] for r in res),
        "invariants": ["InvE1", "InvE2", "InvE3", "InvE4", "InvContract (HeimdallOps never rejects the reference "
                       "composition)", "InvTypes"],
        "properties": ["Converges", "InvalidKeeps"],
        "negative_controls_refuted": refuted,
    }


# ------------------------------------------------------------------ histories

def hist_key(h):
    steps = [{k: v for k, v in s.items() if k != "flv" or s["c"] == "invalid"} for s in h["steps"]]
    return json.dumps([h["fam"], h["kinds"], h["cache"], steps], sort_keys=True)


def generate(work, tier, seed):
    out = work.path("e2e_hist.ndjson")
    env = dict(PARAMS[tier]["gen"])
    env.update(JVM)
    env["VERIF_GEN_OUT"] = out
    r = tlc(work, "HeimdallGen", "HeimdallGen.cfg", env=env, seed=seed, workers=1, timeout=900, heap="6g")
    if not r.ok or not os.path.exists(out):
        raise Infra("HeimdallGen failed:\n%s" % r.out[-3000:])
    allh = read_ndjson(out)
    seen, fams = set(), {}
    for h in allh:
        k = hist_key(h)
        if k in seen or not h["steps"]:
            continue
        seen.add(k)
        fams.setdefault(h["fam"], []).append(h)
    rng = random.Random(seed)
    picked = []
    for fam, n in PARAMS[tier]["pick"].items():
        lst = fams.get(fam, [])
        rng.shuffle(lst)
        picked += lst[:n]
    gen = {"enumerated_by_tlc": len(allh), "distinct": len(seen),
           "per_family": {f: len(v) for f, v in fams.items()}, "executed": len(picked)}
    return picked, gen


def execute(work, binary, hists, seed, tag, tier):
    hf, tf = work.path("e2e_hist_%s.ndjson" % tag), work.path("e2e_trace_%s.ndjson" % tag)
    write_ndjson(hf, hists)
    p = PARAMS[tier]
    args = ["-histories", hf, "-trace", tf, "-dir", work.dir, "-seed", seed, "-parallel", p["parallel"],
            "-requests", p["requests"]]
    out, err, rc = c1617.run(binary, args, timeout=1500)
    if rc != 0 and "panic:" not in out + err and "fatal error:" not in out + err:
        # heimdall terminates the process when a listener cannot bind (port taken by another process between
        # reservation and start): once more
        log("e2e: driver failed (rc=%d: %s); once more" % (rc, (out + err).strip()[-200:]))
        out, err, rc = c1617.run(binary, args, timeout=1500)
    if rc != 0:
        raise Infra("e2edrv failed (rc=%d):\n%s" % (rc, (out + err)[-5000:]))
    try:
        stats = json.loads(out.strip().split("\n")[-1])
    except ValueError:
        stats = {}
    lines = read_ndjson(tf)
    if not lines or stats.get("runs") != len(hists):
        raise Infra("e2edrv completed %s of %d histories" % (stats.get("runs"), len(hists)))
    return lines, stats


# ------------------------------------------------------------------ judging

def split_runs(lines):
    runs, cur = [], None
    for e in lines:
        if e["ev"] == "plan":
            cur = []
            runs.append(cur)
        if cur is None:
            raise Infra("trace does not start with a plan line")
        cur.append(e)
    return runs


def judge(work, lines, tag, parts=1):
    """Judges the trace with HeimdallTrace (in `parts` parallel TLC processes, split at run boundaries)."""
    runs = split_runs(lines)
    parts = max(1, min(parts, len(runs)))
    chunks = [[] for _ in range(parts)]
    sizes = [0] * parts
    for r in sorted(runs, key=len, reverse=True):
        i = sizes.index(min(sizes))
        chunks[i] += r
        sizes[i] += len(r)

    def one(i):
        tf, out = work.path("e2e_judge_%s_%d.ndjson" % (tag, i)), work.path("e2e_verdict_%s_%d.json" % (tag, i))
        write_ndjson(tf, chunks[i])
        r = tlc(work, "HeimdallTrace", "HeimdallTrace.cfg", env=dict(JVM, VERIF_TRACE=tf, VERIF_OUT=out),
                workers=1, timeout=2400, heap="6g")
        if not r.ok or not os.path.exists(out):
            raise Infra("HeimdallTrace failed (%s/%d):\n%s" % (tag, i, r.out[-3000:]))
        v = json.load(open(out))
        if v["lines"] != len(chunks[i]):
            raise Infra("trace length mismatch: TLC consumed %d of %d lines" % (v["lines"], len(chunks[i])))
        for b in v["bad"]:
            b["event"] = chunks[i][b["line"] - 1]
        return v

    with ThreadPoolExecutor(max_workers=parts) as ex:
        vs = list(ex.map(one, range(parts)))
    tot = {"lines": 0, "bad": [], "rejected": 0, "requests": 0, "nontrivial": 0, "acks": 0, "unjudged": 0, "torn": 0}
    for v in vs:
        for k in tot:
            tot[k] += v[k]
    return tot


def facts_of(b, hist):
    f = dict(b["facts"])
    f.update({"part": "e2e", "reason": b["reason"], "property": PROPERTY_OF.get(b["reason"], "binding"),
              "fam": hist["fam"] if hist else ""})
    return f


def base_id(run):
    return run.split("#")[0]


def reproduce(work, binary, by_id, bad, seed, tier, copies=16, times=3):
    """Interleavings cannot be repeated exactly: the histories with rejections are executed again, `copies`
    times each, up to `times` times; a rejection counts when the same comparison fails again on the same kind
    of source. Returns {(reason, kind): (rejection, history)} of the reproduced ones and the rest."""
    want = {}
    for b in bad:
        want.setdefault((b["reason"], b["facts"]["kind"]), []).append(b)
    hists, per_key = [], {}
    for b in bad:   # at most two histories per comparison and kind of source
        ids = per_key.setdefault((b["reason"], b["facts"]["kind"]), [])
        if base_id(b["run"]) not in ids and len(ids) < 2:
            ids.append(base_id(b["run"]))
    for hid in sorted({i for ids in per_key.values() for i in ids}):
        for c in range(copies):
            h = copy.deepcopy(by_id[hid])
            h["id"] = "%s#%d" % (hid, c)
            hists.append(h)
    found, lost = {}, 0
    for n in range(times + 2):
        if len(found) == len(want) or n - lost >= times:
            break
        try:
            lines, _ = execute(work, binary, hists, seed * 1000 + n + 1, "repro%d" % n, tier)
        except Infra as e:
            # e.g. the service terminated (a mutated provider may trip over a file that vanishes while it is
            # being loaded): this repetition is lost
            lost += 1
            log("e2e: a repetition failed (%s); trying again" % str(e).split("\n")[1 if "\n" in str(e) else 0][:200])
            continue
        v = judge(work, lines, "repro%d" % n, parts=PARAMS[tier]["judges"])
        for b in v["bad"]:
            k = (b["reason"], b["facts"]["kind"])
            if k in want and k not in found:
                b["trace"] = [e for e in lines if e["run"] == b["run"] and e["ev"] != "req"] + [b["event"]]
                found[k] = (b, by_id[base_id(b["run"])])
    if lost and not found and lost >= times:
        raise Infra("the histories with rejections could not be executed again (%d attempts failed)" % lost)
    missing = {k: v for k, v in want.items() if k not in found}
    return found, missing


# ------------------------------------------------------------------ binding self-test

def _ver(tag):
    m = re.search(r"@v(\d+)$", tag)
    return int(m.group(1)) if m else None


def binding_selftest(work, lines, rejected_runs):
    """Corrupts recorded observations of accepted runs and checks that HeimdallTrace rejects every corrupted
    run with the expected comparison: a response of an older version after its successor was acknowledged, of a
    version not yet written, of an unknown version; a missing rule during a pure update; two responses in
    real-time order swapped (regression); an acknowledgement showing a stale version / a removed source still
    served; a dropped final acknowledgement; a dropped write."""
    runs = [r for r in split_runs(lines) if r[0]["run"] not in rejected_runs]
    want, out = {}, []
    counts = {}

    def add(kind, run, reason):
        n = counts.get(kind, 0)
        if n >= 4:
            return False
        counts[kind] = n + 1
        rid = "selftest-%s-%d" % (kind, n)
        for e in run:
            e["run"] = rid
        want[rid] = reason
        out.extend(run)
        return True

    for run in runs:
        if len(counts) == 9 and all(v >= 4 for v in counts.values()):
            break
        for src in {e["src"] for e in run if e["ev"] == "write"}:
            writes = [e for e in run if e["ev"] == "write" and e["src"] == src]
            acks = [e for e in run if e["ev"] == "ack" and e["src"] == src]
            reqs = [e for e in run if e["ev"] == "req" and e["src"] == src and e["path"] == "keep"]
            valid = [w for w in writes if w["c"].startswith("v")]
            idx_of = {e["id"]: i for i, e in enumerate(run)}

            def mutated(fn):
                m = copy.deepcopy(run)
                return m if fn(m) is not False else None

            # 1. older than acknowledged: a request that started after the ack of version K answers with J < K
            for a in acks:
                k = _ver(a["tag"])
                olds = [w for w in valid if k and _ver("@" + w["c"]) < k and w["seq"] < a["seq"]]
                later = [q for q in reqs if q["start"] > a["seq"] and _ver(q["tag"]) == k]
                if olds and later:
                    def f(m, q=later[0], w=olds[0]):
                        m[idx_of[q["id"]]]["tag"] = "%s.keep@%s" % (src, w["c"])
                    if add("older", mutated(f), "e2e-version-older-than-acknowledged"):
                        break
            # 2. not yet written: a request that ended before write K answers with K
            for w in valid:
                early = [q for q in reqs if q["end"] < w["seq"]]
                if early:
                    def f(m, q=early[-1], w=w):
                        m[idx_of[q["id"]]]["tag"] = "%s.keep@%s" % (src, w["c"])
                    if add("future", mutated(f), "e2e-response-of-no-current-version"):
                        break
            # 3. a version nobody wrote
            if reqs:
                def f(m, q=reqs[len(reqs) // 2]):
                    m[idx_of[q["id"]]]["tag"] = "%s.keep@v99" % src
                add("unknown", mutated(f), "e2e-response-of-no-current-version")
            # 4. rule missing during a pure update: a request that started after an ack of a version and whose
            #    window only contains writes of versions
            for a in acks:
                if _ver(a["tag"]) is None:
                    continue
                nxt = [x for x in acks if x["seq"] > a["seq"]]
                lim = nxt[0]["seq"] if nxt else 1 << 60
                pure = all(w["c"].startswith("v") or w["c"] == "invalid" for w in writes
                           if a["seq"] < w["seq"] < lim)
                cand = [q for q in reqs if q["start"] > a["seq"] and q["end"] < lim and _ver(q["tag"])]
                if pure and cand:
                    def f(m, q=cand[0]):
                        m[idx_of[q["id"]]]["tag"] = "norule"
                    if add("missing", mutated(f), "e2e-rule-missing-during-update"):
                        break
            # 5. regression: two requests in real-time order inside one window swap their versions (only where
            #    no file is rewritten in place: a torn read could explain a mixture)
            done = any(w["mode"] in ("inplace", "truncate") for w in writes)
            for q2 in reqs:
                k = _ver(q2["tag"])
                if not k or done:
                    continue
                wk = [w for w in valid if _ver("@" + w["c"]) == k]
                for q1 in reqs:
                    j = _ver(q1["tag"])
                    if (j and j < k and q1["end"] < q2["start"] and wk and wk[0]["seq"] < q1["end"]
                            and not any(q1["start"] < a["seq"] < q2["start"] for a in acks)
                            and not any(a["seq"] < q1["start"] and a["idx"] >= wk[0]["idx"] for a in acks)):
                        def f(m, q1=q1, q2=q2):
                            m[idx_of[q1["id"]]]["tag"], m[idx_of[q2["id"]]]["tag"] = q2["tag"], q1["tag"]
                        done = add("regression", mutated(f), "e2e-version-regression")
                        break
            # 6. acknowledgement shows a stale version although a newer valid one was written last
            for a in acks:
                k = _ver(a["tag"])
                olds = [w for w in valid if k and _ver("@" + w["c"]) < k]
                if olds and writes[a["idx"] - 1]["c"].startswith("v"):
                    def f(m, a=a, w=olds[-1]):
                        m[idx_of[a["id"]]]["tag"] = "%s.keep@%s" % (src, w["c"])
                    if add("stale-ack", mutated(f), "e2e-latest-version-not-loaded"):
                        break
            # 7. removed / emptied source still served at quiescence
            for a in acks:
                if a["tag"] == "norule" and writes[a["idx"] - 1]["c"] in ("absent", "empty") and valid \
                        and valid[0]["seq"] < a["seq"]:
                    def f(m, a=a, w=valid[0]):
                        m[idx_of[a["id"]]]["tag"] = "%s.keep@%s" % (src, w["c"])
                    if add("removed-ack", mutated(f), "e2e-removed-source-still-served"):
                        break
            # 8. the last acknowledgement is dropped
            if acks and acks[-1]["idx"] == len(writes):
                def f(m, a=acks[-1]):
                    del m[idx_of[a["id"]]]
                add("dropped-ack", mutated(f), "e2e-no-final-acknowledgement")
            # 9. a write is dropped
            if len(writes) > 1:
                def f(m, w=writes[0]):
                    del m[idx_of[w["id"]]]
                add("dropped-write", mutated(f), "e2e-trace-write-out-of-order")
    required = {"older", "future", "unknown", "missing", "stale-ack", "dropped-ack", "dropped-write"}
    if not required <= set(counts):
        raise Infra("binding self-test: could not construct corruptions %s" % sorted(required - set(counts)))
    v = judge(work, out, "selftest")
    got = {}
    for b in v["bad"]:
        got.setdefault(b["run"], set()).add(b["reason"])
    missed = {rid: r for rid, r in want.items() if r not in got.get(rid, set())}
    if missed:
        raise Infra("binding self-test failed: corrupted runs not rejected as expected: %s (got %s)"
                    % (dict(list(missed.items())[:5]), {k: sorted(got.get(k, [])) for k in list(missed)[:5]}))
    return {"corrupted_runs": len(want), "rejected_as_expected": len(want), "by_kind": counts}


# ------------------------------------------------------------------ the check

def run_part(work, tier, seed):
    """Executes the e2e part. Returns (coverage, confirmed) where confirmed is a list of
    (facts, rejection, history) of reproduced rejections."""
    t0 = time.time()
    with ThreadPoolExecutor(max_workers=2) as ex:
        fd = ex.submit(design_run, work, tier)
        binary = c1617.build("e2edrv", DIRS)
        hists, gen = generate(work, tier, seed)
        by_id = {h["id"]: h for h in hists}
        log("e2e: %d histories generated in %.1fs" % (len(hists), time.time() - t0))
        lines, stats = execute(work, binary, hists, seed, "main", tier)
        log("e2e: %d events recorded after %.1fs" % (len(lines), time.time() - t0))
        v = judge(work, lines, "main", parts=PARAMS[tier]["judges"])
        log("e2e: judged after %.1fs" % (time.time() - t0))
        if v["lines"] != len(lines):
            raise Infra("trace length mismatch")
        binding = [b for b in v["bad"] if b["reason"] in BINDING]
        if binding:
            raise Infra("the recorded trace is malformed (driver / binding problem): %s" % binding[:2])
        bad = v["bad"]
        confirmed, unreproduced = [], []
        if bad:
            log("e2e: %d rejections (%s); executing their histories again"
                % (v["rejected"], ",".join(sorted({b["reason"] for b in bad}))))
            found, missing = reproduce(work, binary, by_id, bad, seed, tier)
            for (reason, kind), (b, h) in sorted(found.items()):
                confirmed.append((facts_of(b, h), b, h))
            unreproduced = [{"reason": r, "kind": k, "first": bs[0]["event"], "count": len(bs)}
                            for (r, k), bs in missing.items()]
        selftest = binding_selftest(work, lines, {b["run"] for b in bad})
        log("e2e: binding self-test done after %.1fs" % (time.time() - t0))
        design = fd.result()
        log("e2e: design runs done after %.1fs" % (time.time() - t0))
    modes = {}
    for e in lines:
        if e["ev"] == "write":
            k = "%s/%s" % (e["kind"], e["mode"])
            modes[k] = modes.get(k, 0) + 1
    cov = {
        "states": design["states"], "transitions": design["transitions"], "design_run": design,
        "histories": gen, "runs": len(hists), "traces_validated_against_impl": len(hists),
        "evaluations": v["requests"] + v["acks"], "requests_judged": v["requests"], "acknowledgements_judged": v["acks"],
        "distinct_nontrivial": v["nontrivial"], "rule": RULE,
        "requests_without_response": v["unjudged"], "responses_explained_by_a_torn_read_only": v["torn"], "writes_by_kind_and_mode": modes,
        "rejected_by_tlc": v["rejected"], "reproduced": len(confirmed), "unreproduced_rejections": unreproduced,
        "binding_selftest": selftest, "driver": stats, "wall_s": round(time.time() - t0, 1),
        "samples": [e for e in lines[:400] if e["ev"] in ("write", "ack")][:3]
        + [e for e in lines[:400] if e["ev"] == "req"][:2],
        "left_open": [
            "how fast a provider follows its source (only acknowledged states bound a response from below)",
            "which of the contents written between two acknowledgements a provider sees (any subsequence)",
            "a file truncated and rewritten in place is empty in between: responses without rule are accepted then",
            "which previous version stays when a source becomes invalid before the provider saw its predecessor",
            "statuses other than 200 + X-Rule and 404 are responses of no version (rejected); transport failures are "
            "not judged",
        ],
    }
    if v["unjudged"] > max(20, v["requests"] // 50):
        raise Infra("%d of %d requests got no response" % (v["unjudged"], v["requests"]))
    if v["nontrivial"] == 0:
        raise Infra("no request overlapped a change (vacuous)")
    return cov, confirmed


def add_to_verdict(verdict, prop, confirmed, seed):
    known = load_known(prop) if prop != PROP else load_known("C07") + load_known("C18")
    n = 0
    for facts, b, h in confirmed:
        if b["reason"] not in REASONS.get(prop, REASONS[PROP]):
            continue
        k = match_known(known, facts)
        if k:
            verdict.known_finding(k)
            continue
        meta = {"ev": "meta", "part": "e2e", "seed": seed, "reason": b["reason"], "kind": facts["kind"], "history": h}
        path = save_replay(prop, "e2e-%s-%s-seed%d" % (b["reason"][4:], facts["kind"], seed), [meta] + b.get("trace", []))
        verdict.violation(path, "%s %s" % (b["reason"], json.dumps(facts, sort_keys=True)))
        n += 1
    return n


def run_into(verdict, work, tier, seed, prop):
    """Executes the e2e part inside the check of C07 or C18: coverage under verdict.coverage["e2e"],
    violations (reason names prefixed e2e-) of the comparisons that belong to `prop`."""
    cov, confirmed = run_part(work, tier, seed)
    cov["reported_here"] = REASONS.get(prop, REASONS[PROP])
    cov["also_observed_for_the_other_property"] = sorted({b["reason"] for _f, b, _h in confirmed
                                                          if b["reason"] not in REASONS.get(prop, REASONS[PROP])})
    verdict.coverage["e2e"] = cov
    for k in ("traces_validated_against_impl", "evaluations"):
        if isinstance(verdict.coverage.get(k), int):
            verdict.coverage[k] += cov[k]
    return add_to_verdict(verdict, prop, confirmed, seed), cov


def is_replay(path):
    try:
        first = read_ndjson(path, limit=1)
        return bool(first) and first[0].get("part") == "e2e"
    except (OSError, ValueError):
        return False


def do_replay(work, replay, seed, prop=PROP):
    lines = read_ndjson(os.path.abspath(replay))
    meta = lines[0]
    h = meta["history"]
    binary = c1617.build("e2edrv", DIRS)
    hists = []
    for c in range(12):
        x = copy.deepcopy(h)
        x["id"] = "%s#%d" % (base_id(h["id"]), c)
        hists.append(x)
    hit = 0
    for n in range(3):
        tl, _ = execute(work, binary, hists, meta.get("seed", seed) * 1000 + n + 1, "replay%d" % n, "quick")
        v = judge(work, tl, "replay%d" % n, parts=2)
        for b in v["bad"]:
            if b["reason"] == meta["reason"]:
                hit += 1
                print("VIOLATION property=%s replay=%s  # %s %s" % (prop, replay, b["reason"], json.dumps(b["event"])))
                break
        if hit:
            break
    print("replayed history %s %d times, %s" % (h["id"], 12 * (n + 1), "rejected again" if hit else "not rejected"))
    return 1 if hit else 0


def run(tier, seed, replay=None):
    verdict = Verdict(PROP, tier, seed)
    work = Work(PROP)
    try:
        if replay:
            return do_replay(work, replay, seed)
        cov, confirmed = run_part(work, tier, seed)
        verdict.coverage.update(cov)
        add_to_verdict(verdict, PROP, confirmed, seed)
        verdict.assumptions += [
            "a fresh service without sources serves no rule set",
            "inotify delivers the events of one watch in order and the file_system provider handles them one after "
            "the other (basis of the acknowledgement of file sources: a sentinel rule-set file created afterwards is "
            "served); each http_endpoint is polled by one scheduler job in singleton mode (basis of the "
            "acknowledgement of endpoints: a further poll arrived after a poll that started after the write)",
            "a file written in place with one write(2) of less than a page is seen empty or complete",
            "temporary files are created next to the watched directory, never inside it",
        ]
        return verdict.finish()
    finally:
        work.close()


if __name__ == "__main__":
    import argparse
    ap = argparse.ArgumentParser()
    ap.add_argument("--tier", default="quick", choices=["quick", "thorough"])
    ap.add_argument("--seed", type=int, default=1)
    ap.add_argument("--replay")
    a = ap.parse_args()
    try:
        sys.exit(run(a.tier, a.seed, a.replay))
    except Infra as e:
        print("INFRASTRUCTURE FAILURE (no verdict): %s" % e, file=sys.stderr)
        sys.exit(2)
    finally:
        verif.cleanup_binaries()
