"""C14: effective pipelines follow stage-wise inheritance; malformed rules are rejected."""
import json

from casecheck import CaseCheck
from verif import log, tlc_expect_ok


class C14(CaseCheck):
    prop = "C14"
    trace_module = "RuleFactoryTrace"
    mc_module = "RuleFactoryMC"
    mc_invariants = ["StageWise", "BtRule", "RejectsMalformed"]
    mutants = {"listwise": "StageWise", "bt_needs_default": "BtRule", "no_order_check": "RejectsMalformed"}
    rule = ("cases enumerated by TLC (RuleFactoryGen): every default rule (absent, or authenticator plus every "
            "subset of handlers / finalizers / error handlers, backtracking on/off) x every execute sequence up "
            "to 2 (quick) / 3 (thorough) entries over {authenticator, authorizer, contextualizer, finalizer, "
            "unknown reference, refused override, unsupported entry} x on_error {none, handler, two handlers, "
            "unknown, unsupported} x backtracking_enabled {unset, true, false} x mode x forward_to; a stratified "
            "sample is loaded through the real rule-set processor (conditional steps and empty `if` added at "
            "random) and three requests show the executed mechanisms (all succeed / every authenticator fails) "
            "and whether a failed match backtracks; non-trivial = a default rule exists or the rule is "
            "malformed; distinct = by case content; every rule additionally goes to the Kubernetes validating "
            "admission webhook built over the same rule factory (alone under the own authClassName, alone under "
            "another one, and as second and third of three rules): Admission!Verdict")
    assumptions = [
        "mechanisms are scripted; instances of the default rule and of the rule carry different names, so the "
        "executed pipeline is observed, not private slices",
    ]

    def design(self, work, verdict):
        # the rule factory's design run, and the admission webhook's beside it
        from concurrent.futures import ThreadPoolExecutor
        from verif import tlc_expect_violation
        with ThreadPoolExecutor(max_workers=5) as ex:
            base = ex.submit(CaseCheck.design, self, work, verdict)
            main = ex.submit(tlc_expect_ok, work, "AdmissionMC", "AdmissionMC.cfg", workers=2, timeout=600)
            muts = {m: ex.submit(tlc_expect_violation, work, "AdmissionMC", "AdmissionMC_%s.cfg" % m, inv,
                                 workers=1, timeout=600)
                    for m, inv in (("first_error_only", "AnswerIsVerdict"), ("mismatch_refused", "ForeignNeverRefused"),
                                   ("last_wins", "AdmittedIsLoadable"))}
            base.result()
            r = main.result()
            refuted = {m: f.result().violated for m, f in muts.items()}
        verdict.coverage["admission_design_run"] = {
            "module": "AdmissionMC", "distinct_states": r.distinct, "generated": r.generated,
            "invariants": ["AnswerIsVerdict", "AdmittedIsLoadable", "ForeignNeverRefused"], "liveness": ["Answers"],
            "negative_controls_refuted": refuted,
        }

    def generate(self, work, tier, seed):
        out = work.path("c14cases.ndjson")
        tlc_expect_ok(work, "RuleFactoryGen", "RuleFactoryGen.cfg",
                      env={"VERIF_GEN_OUT": out, "VERIF_GEN_LEN": 2 if tier == "quick" else 3},
                      workers=1, timeout=1800, heap="12g")
        n = sum(1 for _ in open(out))
        log("generated %d cases" % n)
        return out, n

    def driver_args(self, gen_path, trace_path, tier, seed):
        return ["c14", "-cases", gen_path, "-trace", trace_path, "-seed", seed,
                "-max", 6000 if tier == "quick" else 80000]

    def replay_args(self, cases_path, trace_path):
        return ["c14", "-concrete", "-cases", cases_path, "-trace", trace_path, "-workers", 4]

    def facts(self, case, bad):
        return {"reason": ",".join(sorted(bad["reasons"])), "mode": case["mode"],
                "default_present": case["def"]["present"], "rule_bt": case["rule"]["bt"]}

    def context(self, lines, cand):
        # all rules of one (mode, default rule) go through one service and one rule factory, one after the
        # other: what a rule leaves behind there can only show in the rules loaded after it
        def key(c):
            return json.dumps([c["mode"], c["def"]], sort_keys=True)
        keys = {key(c) for c in cand}
        return [c for c in lines if key(c) in keys]

    def corrupt(self, case):
        o = case["obs"]
        if o["loaded"] and o["exec_ok"]:
            o["exec_ok"] = o["exec_ok"][1:] + ["XX"]
            return case
        return None


def run(tier, seed, replay):
    return C14().run(tier, seed, replay)
