"""Shared machinery of the ./check driver: scratch dirs, Go build, TLC runs, verdicts, evidence."""
import hashlib
import json
import os
import re
import shutil
import subprocess
import sys
import threading
import time

ROOT = os.path.dirname(os.path.dirname(os.path.abspath(__file__)))
REPO = os.environ.get("VERIF_REPO", "/repo")
SPEC = os.path.join(ROOT, "spec")
HARNESS = os.path.join(ROOT, "harness")
WORKROOT = os.path.join(ROOT, ".work")
EVIDENCE = os.path.join(ROOT, "evidence")
if os.path.realpath(REPO) != "/repo":
    # a run against a scratch worktree (development aid) says nothing about /repo: its evidence and
    # replay files stay out of the committed evidence directory
    EVIDENCE = os.path.join(WORKROOT, "evidence-scratch")
REPLAYS = os.path.join(EVIDENCE, "replay")

GOENV = {
    "GOFLAGS": "-mod=mod",
    "GOPROXY": "off",
    "GOSUMDB": "off",
    "GOTOOLCHAIN": "local",
}


class Infra(Exception):
    """Infrastructure failure: exit 2, never a violation."""


def log(*a):
    print(*a, file=sys.stderr, flush=True)


def goenv():
    env = dict(os.environ)
    env.update(GOENV)
    return env


def ensure_gomod():
    """Creates a private go.mod/go.sum pair for the harness module that points at REPO (the
    repository under test) and returns the go.mod path for `go build -modfile`. The pair lives
    under .work, keyed by REPO, so that runs against scratch worktrees (VERIF_REPO) neither see
    nor disturb each other; harness/go.mod itself only marks the module root."""
    tmpl = os.path.join(HARNESS, "go.mod.tmpl")
    key = hashlib.sha1(REPO.encode()).hexdigest()[:10]
    d = os.path.join(WORKROOT, "mod", key)
    os.makedirs(d, exist_ok=True)
    gomod = os.path.join(d, "go.mod")
    gosum = os.path.join(d, "go.sum")
    repo_mod = os.path.join(REPO, "go.mod")
    repo_sum = os.path.join(REPO, "go.sum")
    txt = open(tmpl).read().replace("=> /repo", "=> " + REPO)
    m = re.search(r"^go (\S+)", open(repo_mod).read(), re.M)
    if m:
        txt = re.sub(r"^go \S+", "go " + m.group(1), txt, flags=re.M)
    stale = (not os.path.exists(gomod) or not os.path.exists(gosum)
             or os.path.getmtime(gomod) < os.path.getmtime(repo_mod)
             or os.path.getmtime(gosum) < os.path.getmtime(repo_sum)
             or ("=> " + REPO + "\n") not in open(gomod).read())
    if stale:
        tmp = gomod + ".%d" % os.getpid()
        open(tmp, "w").write(txt)
        os.replace(tmp, gomod)
        shutil.copy(repo_sum, gosum + ".%d" % os.getpid())
        os.replace(gosum + ".%d" % os.getpid(), gosum)
    if not os.path.exists(os.path.join(HARNESS, "go.mod")):
        shutil.copy(tmpl, os.path.join(HARNESS, "go.mod"))
    return gomod


_built = {}


def COVER_FLAGS():
    """Development aid (VERIF_COVER=1 + GOCOVERDIR=<dir>): the drivers are built with coverage
    instrumentation of heimdall's packages, to see which code of the anchored files a check executes."""
    if os.environ.get("VERIF_COVER"):
        return ["-cover", "-covermode=atomic", "-coverpkg=github.com/dadrus/heimdall/internal/...,github.com/dadrus/heimdall/verifharness/..."]
    return []


def build_driver(race=False, tags="verif", cmd="verifdrv"):
    """Builds harness/cmd/<cmd> against the current /repo working tree. Returns the binary path."""
    key = (race, tags, cmd)
    if key in _built:
        return _built[key]
    modfile = ensure_gomod()
    os.makedirs(os.path.join(WORKROOT, "bin"), exist_ok=True)
    out = os.path.join(WORKROOT, "bin", cmd + ("-race" if race else "") + "-%d" % os.getpid())
    gocmd = cmd
    cmd = (["go", "build", "-modfile", modfile, "-tags", tags, "-o", out] + (["-race"] if race else [])
           + COVER_FLAGS() + ["./cmd/" + gocmd])
    t0 = time.time()
    p = subprocess.run(cmd, cwd=HARNESS, env=goenv(), capture_output=True, text=True)
    if p.returncode != 0:
        raise Infra("go build failed:\n" + p.stdout + p.stderr)
    log("built %s in %.1fs" % (os.path.basename(out), time.time() - t0))
    _built[key] = out
    return out


def go_test_overlay(work, pkg, test_files, run, env=None, race=False, timeout=1800, tags="verif"):
    """Runs in-package driver tests: the files test_files (paths below harness/overlay/) are injected
    into the repository package pkg (e.g. "internal/rules/provider/httpendpoint") through go's build
    overlay, without touching /repo, and `go test -run <run>` is executed there. Returns the output."""
    overlay = {"Replace": {}}
    for f in test_files:
        src = os.path.join(HARNESS, "overlay", f)
        if not os.path.exists(src):
            raise Infra("overlay source missing: " + src)
        overlay["Replace"][os.path.join(REPO, pkg, os.path.basename(f))] = src
    n = work.next()
    ov = work.path("overlay%d.json" % n)
    with open(ov, "w") as f:
        json.dump(overlay, f)
    cmd = ["go", "test", "-tags", tags, "-vet=off", "-count=1", "-overlay", ov, "-run", run,
           "-timeout", "%ds" % timeout]
    if race:
        cmd.append("-race")
    cmd.append("./" + pkg)
    e = goenv()
    e["VERIF_WORK"] = WORKROOT
    if env:
        e.update({k: str(v) for k, v in env.items()})
    p = subprocess.run(cmd, cwd=REPO, env=e, capture_output=True, text=True, timeout=timeout + 300)
    out = p.stdout + p.stderr
    if p.returncode != 0 and "--- FAIL" not in out and "DATA RACE" not in out and "panic:" not in out:
        raise Infra("go test -overlay %s failed (rc=%d):\n%s" % (pkg, p.returncode, out[-6000:]))
    return p.returncode, out


def cleanup_binaries():
    for out in _built.values():
        try:
            os.remove(out)
        except OSError:
            pass


class Work:
    """Scratch directory of one check invocation, with the specs copied in."""

    def __init__(self, prop):
        self.dir = os.path.join(WORKROOT, "%s-%d" % (prop, os.getpid()))
        shutil.rmtree(self.dir, ignore_errors=True)
        os.makedirs(self.dir)
        for f in os.listdir(SPEC):
            if f.endswith(".tla") or f.endswith(".cfg"):
                shutil.copy(os.path.join(SPEC, f), self.dir)
        self.n = 0
        self._lock = threading.Lock()

    def next(self):
        with self._lock:
            self.n += 1
            return self.n

    def path(self, name):
        return os.path.join(self.dir, name)

    def close(self):
        if os.environ.get("VERIF_KEEP"):   # development aid: look at the scratch files afterwards
            return
        shutil.rmtree(self.dir, ignore_errors=True)


TLC_STATS = re.compile(r"(\d+) states generated, (\d+) distinct states found")


class TLCResult:
    def __init__(self, rc, out):
        self.rc = rc
        self.out = out
        m = TLC_STATS.findall(out)
        self.generated = int(m[-1][0]) if m else 0
        self.distinct = int(m[-1][1]) if m else 0
        self.violated = re.findall(r"Invariant (\S+) is violated", out)
        self.temporal_violated = "Temporal properties were violated" in out
        self.ok = rc == 0 and "No error has been found" in out

    def coverage_zero(self):
        """Action/expression coverage lines with zero count (needs -coverage)."""
        return re.findall(r"^<(\w+) line .*>: 0:0$", self.out, re.M)


def tlc(work, module, cfg=None, env=None, workers=1, timeout=900, extra=None, seed=None, heap=None):
    n = work.next()
    cfg = cfg or module + ".cfg"
    cmd = ["timeout", str(timeout), "java"]
    if heap:
        cmd.append("-Xmx" + heap)
    # TLC leaves an (empty) directory per run in java.io.tmpdir: keep that inside the scratch directory
    jtmp = work.path("jtmp")
    os.makedirs(jtmp, exist_ok=True)
    cmd += ["-Djava.io.tmpdir=" + jtmp, "-XX:+UseParallelGC", "-Xss64m",
            "-cp", "/opt/veriftools/tla/tla2tools.jar:/opt/veriftools/tla/CommunityModules-deps.jar",
            "tlc2.TLC", "-workers", str(workers), "-metadir", work.path("md%d" % n),
            "-config", cfg]
    if seed is not None:
        cmd += ["-seed", str(seed)]
    if extra:
        cmd += extra
    cmd.append(module + ".tla")
    e = dict(os.environ)
    if env:
        e.update({k: str(v) for k, v in env.items()})
    t0 = time.time()
    p = subprocess.run(cmd, cwd=work.dir, env=e, capture_output=True, text=True)
    res = TLCResult(p.returncode, p.stdout + p.stderr)
    res.wall = time.time() - t0
    shutil.rmtree(work.path("md%d" % n), ignore_errors=True)
    if p.returncode == 124:
        raise Infra("TLC timed out on %s/%s" % (module, cfg))
    return res


def tlc_expect_ok(work, module, cfg=None, **kw):
    r = tlc(work, module, cfg, **kw)
    if not r.ok:
        raise Infra("TLC run %s/%s failed (rc=%d):\n%s" % (module, cfg or module, r.rc, r.out[-4000:]))
    return r


def tlc_expect_violation(work, module, cfg, invariant=None, **kw):
    """Negative control: the mutant model must violate an invariant."""
    r = tlc(work, module, cfg, **kw)
    if not r.violated and not r.temporal_violated:
        raise Infra("negative control %s/%s was NOT refuted by TLC (vacuous invariant?):\n%s"
                    % (module, cfg, r.out[-2000:]))
    if invariant and invariant not in r.violated:
        raise Infra("negative control %s/%s violated %s, expected %s" % (module, cfg, r.violated, invariant))
    return r


def run_driver(binary, args, timeout=3600, env=None):
    e = goenv()
    e["VERIF_WORK"] = WORKROOT
    if env:
        e.update({k: str(v) for k, v in env.items()})
    p = subprocess.run([binary] + [str(a) for a in args], capture_output=True, text=True, timeout=timeout, env=e)
    if p.returncode != 0:
        raise Infra("driver %s failed (rc=%d):\n%s" % (" ".join(map(str, args[:3])), p.returncode,
                                                        (p.stdout + p.stderr)[-6000:]))
    return p.stdout


def read_ndjson(path, limit=None):
    out = []
    with open(path) as f:
        for line in f:
            line = line.strip()
            if line:
                out.append(json.loads(line))
                if limit and len(out) >= limit:
                    break
    return out


def write_ndjson(path, items):
    with open(path, "w") as f:
        for it in items:
            f.write(json.dumps(it, separators=(",", ":")) + "\n")


# ------------------------------------------------------------------ known findings

def load_known(prop):
    path = os.path.join(ROOT, "known_findings.json")
    if not os.path.exists(path):
        return []
    data = json.load(open(path))
    return [k for k in data.get("findings", []) if k["property"] == prop and k.get("status") == "known"]


def _get(d, dotted):
    cur = d
    for part in dotted.split("."):
        if isinstance(cur, dict) and part in cur:
            cur = cur[part]
        else:
            return None
    return cur


def match_known(known, facts):
    """facts: flat dict of trigger fields of the failing case. Returns the matching entry or None."""
    for k in known:
        if all(_get(facts, f) == v for f, v in k["match"].items()):
            return k
    return None


# ------------------------------------------------------------------ evidence / verdict

class Verdict:
    def __init__(self, prop, tier, seed):
        self.prop, self.tier, self.seed = prop, tier, seed
        self.t0 = time.time()
        self.violations = []   # (replay path, description)
        self.known = {}        # what -> count
        self.coverage = {}
        self.assumptions = []
        self.level = "model_checking"

    def violation(self, replay, what):
        self.violations.append((replay, what))

    def known_finding(self, entry):
        self.known[entry["what"]] = self.known.get(entry["what"], 0) + 1

    def finish(self):
        os.makedirs(EVIDENCE, exist_ok=True)
        cov = dict(self.coverage)
        cov["known_findings_matched"] = self.known
        ev = {
            "property_id": self.prop,
            "tier": self.tier,
            "seed": self.seed,
            "level": self.level,
            "coverage": cov,
            "assumptions": self.assumptions,
            "wall_s": round(time.time() - self.t0, 2),
            "violations": len(self.violations),
        }
        with open(os.path.join(EVIDENCE, self.prop + ".json"), "w") as f:
            json.dump(ev, f, indent=1, sort_keys=True)
            f.write("\n")
        for what, n in sorted(self.known.items()):
            print("KNOWN-FINDING: property=%s %s (%d cases)" % (self.prop, what, n))
        for replay, what in self.violations[:20]:
            print("VIOLATION property=%s replay=%s  # %s" % (self.prop, replay, what))
        if len(self.violations) > 20:
            print("# ... %d more violations" % (len(self.violations) - 20))
        return 1 if self.violations else 0


def save_replay(prop, name, lines):
    os.makedirs(REPLAYS, exist_ok=True)
    path = os.path.join(REPLAYS, "%s-%s.ndjson" % (prop, name))
    write_ndjson(path, lines)
    return path
