"""C15 - proxy mode forwards exactly the rewritten request with pipeline headers winning
(spec/ProxyForward*.tla).

design run (ProxyForwardMC + negative controls) -> TLC-generated abstract cases (ProxyForwardGen) ->
real assembled proxy service with a recording upstream that accepts plain and TLS connections
(c15drv) -> TLC trace validation (ProxyForwardTrace) -> reproduction of rejected cases -> verdict.
"""
import copy
import hashlib
import json
import os
import sys
import time
from concurrent.futures import ThreadPoolExecutor

from verif import (Infra, Verdict, Work, build_driver, load_known, log, match_known, read_ndjson, run_driver,
                   save_replay, tlc_expect_ok, tlc_expect_violation, write_ndjson)

PROP = "C15"
REPRO_CAP = 25
MUTANTS = ["add_then_strip", "cut_on_decoded", "cut_anywhere", "double_encode", "on_reencodes_path",
           "malformed_query_kept", "first_only_removed", "header_added_not_set", "pipeline_host_ignored",
           "forwarded_method_kept", "peer_not_appended"]
INVARIANTS = ["InvProperty", "InvStripThenAdd", "InvNoRecoding", "InvPipelineWins", "InvForwarded"]

RULE = ("cases = families enumerated by TLC over abstract octet classes and parameter kinds: P path tails (up to 2 "
        "segments; classes unreserved plain/encoded, $&+,:;=@ plain/encoded, !*'() plain/encoded, other encoded, %25, "
        "%2F) x 9 (strip, add) combinations x allow_encoded_slashes; Q queries up to 2-3 parameters of 13 kinds x "
        "strip_query_parameters; H pipeline headers (custom, Authorization, Host, lower-case name) x 0-2 colliding "
        "client lines x unrelated header x peer; F trusted/untrusted peer x all subsets of the seven forwarded "
        "headers; B methods x bodies; concrete octets, hex case, header-name casing seeded; non-trivial = something "
        "has to be transformed, kept in a non-plain spelling, replaced, dropped or appended; distinct = by abstract "
        "case and spelling variant")


def design_run(work, verdict, tier):
    with ThreadPoolExecutor(max_workers=6) as ex:
        cfg = "ProxyForwardMC_quick.cfg" if tier == "quick" else "ProxyForwardMC.cfg"   # tails up to 2 / 3 tokens
        main = ex.submit(tlc_expect_ok, work, "ProxyForwardMC", cfg, workers=4, timeout=900)
        muts = {m: ex.submit(tlc_expect_violation, work, "ProxyForwardMC", "ProxyForwardMC_%s.cfg" % m, "InvProperty",
                             workers=1, timeout=600) for m in MUTANTS}
        r = main.result()
        refuted = {m: f.result().violated for m, f in muts.items()}
    verdict.coverage["states"] = r.distinct
    verdict.coverage["transitions"] = r.generated
    verdict.coverage["design_run"] = {
        "module": "ProxyForwardMC", "config": cfg, "distinct_states": r.distinct, "generated": r.generated,
        "invariants": INVARIANTS, "wall_s": round(r.wall, 1), "negative_controls_refuted": refuted,
    }


def case_key(c):
    return hashlib.sha1(json.dumps({"gen": c["gen"], "v": c["v"]}, sort_keys=True).encode()).hexdigest()


def abstract_key(c):
    return hashlib.sha1(json.dumps(c["gen"], sort_keys=True).encode()).hexdigest()


RESPELL = {"D": "d", "X": "x", "U": "u"}


def _norm_on(path):
    """Token path with %2F as separator and the plain / encoded spelling of every octet that the
    standard library's path escaper may write either way merged."""
    out = []
    for t in path:
        cl = t["c"]
        if cl == "s":
            out.append(("/", "/"))
        else:
            out.append((RESPELL.get(cl, cl), t["d"]))
    return out


def facts_of(c, reason, exp):
    """Trigger fields of a failing case for known-finding matching: inputs, the specification's
    expectation, and the name of the failed comparison."""
    g = c["gen"]
    orig = c["upath"] if exp["honoured"]["uri"] > 0 else c["path"]
    f = {
        "reason": reason,
        "fam": g["fam"],
        "slashes": g["slashes"],
        "strip": g["strip"],
        "add": g["add"],
        "trusted": c["trusted"],
        "qstrip_set": len(g["qstrip"]) > 0,
        "query_undecodable": any(p["mal"] for p in (c["upairs"] if exp["honoured"]["uri"] > 0 else c["pairs"])),
        "path_has_reserved_respellable": any(t["c"] in ("D", "x") for t in orig),
    }
    # allow_encoded_slashes: on - is the spelling of $&+,:;=@ / !*'() octets the only difference?
    obs = _norm_on(c["obs"]["path"])
    f["only_reserved_respelled"] = (g["slashes"] == "on" and c["obs"]["pathok"]
                                    and any(obs == _norm_on(alt) or (alt == [] and obs == [("/", "/")])
                                            for alt in exp["path_alts"]))
    return f


def judge(work, trace_path, tag=""):
    out = work.path("verdict%s.json" % tag)
    r = tlc_expect_ok(work, "ProxyForwardTrace", "ProxyForwardTrace.cfg",
                      env={"VERIF_TRACE": trace_path, "VERIF_OUT": out}, workers=1, timeout=3000, heap="8g")
    v = json.load(open(out))
    v["tlc_states"] = r.distinct
    return v


def produce(work, binary, tier, seed):
    cases = work.path("cases.ndjson")
    g = tlc_expect_ok(work, "ProxyForwardGen", "ProxyForwardGen.cfg",
                      env={"VERIF_GEN_OUT": cases, "VERIF_GEN_TIER": tier}, seed=seed, workers=1, timeout=1800, heap="8g")
    ngen = sum(1 for _ in open(cases))
    log("generated %d cases in %.1fs" % (ngen, g.wall))
    trace = work.path("trace.ndjson")
    rounds = 2 if tier == "quick" else 1
    parts = []
    for i in range(rounds):
        part = work.path("trace%d.ndjson" % i)
        args = ["-cases", cases, "-trace", part, "-seed", seed + 1000 * i, "-prefix", "r%d-c" % i]
        if tier != "quick":
            args += ["-max", 120000]
        log(run_driver(binary, args).strip())
        parts.append(part)
    with open(trace, "w") as f:
        for p in parts:
            f.write(open(p).read())
    return trace, ngen


def execute_concrete(work, binary, cases, tag):
    cf, tf = work.path("re%s.ndjson" % tag), work.path("re%s.trace.ndjson" % tag)
    write_ndjson(cf, cases)
    run_driver(binary, ["-concrete", "-cases", cf, "-trace", tf, "-workers", 4])
    return tf, read_ndjson(tf)


def reproduce(work, binary, lines, bad, times=3):
    """Re-executes rejected cases in isolation; returns those rejected every time (with the last
    verdict record)."""
    by_id = {c["id"]: c for c in lines}
    cand = [by_id[b["id"]] for b in bad]
    last = {b["id"]: b for b in bad}
    for i in range(times):
        if not cand:
            break
        tf, got = execute_concrete(work, binary, cand, "_r%d" % i)
        v = judge(work, tf, tag="_r%d" % i)
        last = {b["id"]: b for b in v["bad"]}
        gotm = {c["id"]: c for c in got}
        cand = [gotm[i_] for i_ in last if i_ in gotm]
    return [(c, last[c["id"]]) for c in cand]


def binding_selftest(work, lines, rejected_ids):
    """Corrupts recorded observations of accepted cases and checks that TLC rejects exactly the
    corrupted lines."""
    lines = [c for c in lines if c["id"] not in rejected_ids]
    mutated, kinds = [], {}

    def add(kind, m):
        kinds[kind] = kinds.get(kind, 0) + 1
        m["id"] = "%s-%s" % (kind, m["id"])
        mutated.append(m)

    def want(kind):
        return kinds.get(kind, 0) < 10

    for c in lines:
        o = c["obs"]
        if o["hits"] != 1:
            continue
        if want("decoded-octet") and c["slashes"] != "on":
            enc = [i for i, t in enumerate(o["path"]) if t["c"] in ("U", "D", "X")]
            if enc:
                m = copy.deepcopy(c); t = m["obs"]["path"][enc[0]]; t["c"] = t["c"].lower(); add("decoded-octet", m)
        if want("double-encoded"):
            pcts = [i for i, t in enumerate(o["path"]) if t["c"] == "p"]
            if pcts:
                m = copy.deepcopy(c)
                m["obs"]["path"][pcts[0] + 1:pcts[0] + 1] = [{"c": "u", "d": "2"}, {"c": "u", "d": "5"}]
                add("double-encoded", m)
        if want("not-stripped") and (c["strip"] and c["gen"]["strip"] in ("seg1", "seg2") and c["slashes"] != "on"):
            m = copy.deepcopy(c); m["obs"]["path"] = c["add"] + c["path"]; add("not-stripped", m)
        if want("not-added") and (c["add"]):
            m = copy.deepcopy(c); m["obs"]["path"] = m["obs"]["path"][len(c["add"]):]; add("not-added", m)
        if want("query-changed") and (c["gen"]["qstrip"] == [] and c["rawq"] and c["fh"]["uri"] == 0):
            m = copy.deepcopy(c); m["obs"]["rawq"] = c["rawq"] + "&x=1"; add("query-changed", m)
        if want("client-header-kept") and (c["ph"] and c["ph"][0]["n"] != "host" and c["ph"][0]["client"] > 0):
            m = copy.deepcopy(c); m["obs"]["ph"][0] = ["c1", "p"]; add("client-header-kept", m)
        if want("fwd-method-passed") and (c["fh"]["method"] > 0):
            m = copy.deepcopy(c); m["obs"]["fwd3"] = ["method"]; add("fwd-method-passed", m)
        if want("peer-missing") and (o["fwd"] and o["fwd"][-1] == "peer"):
            m = copy.deepcopy(c); m["obs"]["fwd"] = o["fwd"][:-1]; add("peer-missing", m)
        if want("body-changed") and (c["bodylen"] > 0):
            m = copy.deepcopy(c); m["obs"]["bodysha"] = "0" * 16; add("body-changed", m)
        if want("scheme-ignored") and (c["rw_scheme"] == "https"):
            m = copy.deepcopy(c); m["obs"]["scheme"] = "http"; add("scheme-ignored", m)
        if want("method-changed"):
            m = copy.deepcopy(c); m["obs"]["method"] = "TRACE"; add("method-changed", m)
        if len(kinds) >= 11 and not any(want(k) for k in kinds):
            break
    need = 11 if not rejected_ids else 4
    if len(kinds) < need:
        raise Infra("binding self-test: only %s corruptible" % sorted(kinds))
    tf = work.path("selftest.ndjson")
    write_ndjson(tf, mutated)
    v = judge(work, tf, tag="_self")
    if len(v["bad"]) != len(mutated):
        missed = sorted({m["id"] for m in mutated} - {b["id"] for b in v["bad"]})[:5]
        raise Infra("binding self-test failed: %d corrupted observations, %d rejected (accepted: %s)"
                    % (len(mutated), len(v["bad"]), missed))
    return {"corrupted": len(mutated), "rejected": len(v["bad"]), "kinds": kinds}


def do_replay(work, binary, replay):
    cases = read_ndjson(os.path.abspath(replay))
    tf, _ = execute_concrete(work, binary, cases, "_replay")
    v = judge(work, tf, tag="_replay")
    for b in v["bad"]:
        print("VIOLATION property=%s replay=%s  # %s" % (PROP, replay, ",".join(b["reasons"])))
    print("replayed %d cases, %d rejected" % (v["lines"], len(v["bad"])))
    return 1 if v["bad"] else 0


def run(tier, seed, replay=None):
    verdict = Verdict(PROP, tier, seed)
    work = Work(PROP)
    try:
        binary = build_driver(cmd="c15drv")
        if replay:
            return do_replay(work, binary, replay)

        with ThreadPoolExecutor(max_workers=2) as ex:
            d = ex.submit(design_run, work, verdict, tier)
            pr = ex.submit(produce, work, binary, tier, seed)
            d.result()
            trace, ngen = pr.result()

        log("design run + execution done at %.0fs" % (time.time() - verdict.t0))
        v = judge(work, trace)
        log("judged at %.0fs" % (time.time() - verdict.t0))
        lines = read_ndjson(trace)
        if v["lines"] != len(lines) or len(lines) == 0:
            raise Infra("trace length mismatch: TLC consumed %d of %d" % (v["lines"], len(lines)))

        known = load_known(PROP)
        confirmed = []
        skipped = 0
        if v["bad"]:
            # at most REPRO_CAP rejected cases per signature (family, rule shape, failed comparisons) are
            # re-executed; the others fail in the same way and add nothing to the verdict
            by_id = {c["id"]: c for c in lines}
            per_sig, todo = {}, []
            for b in v["bad"]:
                g = by_id[b["id"]]["gen"]
                sig = (g["fam"], g["slashes"], g["strip"], g["add"], len(g["qstrip"]), tuple(sorted(b["reasons"])))
                per_sig[sig] = per_sig.get(sig, 0) + 1
                if per_sig[sig] <= REPRO_CAP:
                    todo.append(b)
            skipped = len(v["bad"]) - len(todo)
            log("%d cases rejected (%d signatures); re-executing %d of them in isolation"
                % (len(v["bad"]), len(per_sig), len(todo)))
            confirmed = reproduce(work, binary, lines, todo)
        for c, b in confirmed:
            # a case is a known finding iff every failed comparison is explained by a listed finding
            entries, unexplained = [], []
            for reason in b["reasons"]:
                k = match_known(known, facts_of(c, reason, b["expected"]))
                (entries if k else unexplained).append(k or reason)
            if not unexplained:
                for k in entries:
                    verdict.known_finding(k)
            else:
                path = save_replay(PROP, case_key(c)[:12], [c]) if len(verdict.violations) < 20 else "(not saved)"
                f = facts_of(c, unexplained[0], b["expected"])
                verdict.violation(path, ",".join(b["reasons"]) + " " + json.dumps(f) + " sent=" + c["conc"]["target"][:80]
                                  + " upstream=" + c["obs"]["uri"][:80])

        log("reproduced at %.0fs" % (time.time() - verdict.t0))
        selftest = binding_selftest(work, lines, {b["id"] for b in v["bad"]})
        log("self-test at %.0fs" % (time.time() - verdict.t0))

        fams = {}
        for c in lines:
            fams[c["gen"]["fam"]] = fams.get(c["gen"]["fam"], 0) + 1
        verdict.coverage.update({
            "traces_validated_against_impl": len(lines),
            "evaluations": len(lines),
            "distinct_nontrivial": min(len({case_key(c) for c in lines}), v["nontrivial"]),
            "rule": RULE,
            "generated_by_tlc": ngen,
            "distinct_cases": len({case_key(c) for c in lines}),
            "distinct_abstract_cases": len({abstract_key(c) for c in lines}),
            "nontrivial_cases": v["nontrivial"],
            "rejected_by_tlc": len(v["bad"]),
            "reproduced": len(confirmed),
            "rejected_not_reexecuted_same_signature": skipped,
            "binding_selftest": selftest,
            "samples": [x for x in lines if x["gen"]["fam"] == "P" and x["strip"] and len(x["path"]) < 16][:2]
                       + [x for x in lines if x["gen"]["fam"] == "F" and x["trusted"]][:1],
            "families": fams,
        })
        verdict.assumptions += [
            "octets are chosen per class from fixed character sets (ASCII; '.' and non-ASCII octets excluded); "
            "hex case of escapes is varied but not compared",
            "strip prefixes end at segment boundaries; a prefix that matches only after decoding unreserved octets "
            "is left open",
            "pipeline headers are produced by the real header finalizer with constant values, one value per name",
            "the upstream is a Go net/http server recording RequestURI, headers and a body digest; HTTP/1.1 only",
        ]
        return verdict.finish()
    finally:
        work.close()


if __name__ == "__main__":  # stand-alone entry: python3 lib/c15.py [--tier T] [--seed N] [--replay P]
    import argparse
    import verif
    ap = argparse.ArgumentParser()
    ap.add_argument("--tier", default="quick")
    ap.add_argument("--seed", type=int, default=1)
    ap.add_argument("--replay")
    a = ap.parse_args()
    try:
        rc = run(a.tier, a.seed, a.replay)
    except verif.Infra as e:
        print("INFRASTRUCTURE FAILURE (no verdict): %s" % e, file=sys.stderr)
        rc = 2
    except Exception:  # noqa: BLE001
        import traceback
        traceback.print_exc()
        rc = 2
    finally:
        verif.cleanup_binaries()
    sys.exit(rc)
