"""C04, real-authenticator half: chains of REAL authenticators fall back only on missing credentials
or explicit opt-in.

spec/AuthnRealGen.tla enumerates the chains (type x allow_fallback_on_error mode x credential class
per step), harness/c04r + cmd/c04rdrv realises every chain as a rule of the real assembled decision
service (real anonymous / unauthorized / basic_auth / jwt / generic / oauth2_introspection
authenticators against local JWKS, introspection and identity servers with call counters) and one
request whose credential class per step holds by construction; spec/AuthnRealTrace.tla (EXTENDS
Pipeline) judges every recorded case with Pipeline!StepAuthn.

run_into(verdict, work, tier, seed) -> (violations, coverage)   for use inside the C04 check
run(tier, seed, replay)                                          stand-alone (evidence/C04R.json)
"""
import copy
import hashlib
import json
import os
import sys

from verif import (ROOT, Infra, Verdict, Work, build_driver, load_known, log, match_known, read_ndjson,
                   run_driver, save_replay, tlc_expect_ok, write_ndjson)

PROP = "C04"
FIXTURES = os.path.join(ROOT, "fixtures", "jwt")

TIERS = {
    # exhaustive chain length, concretisations per chain (sources / credential shapes are drawn per
    # concretisation), number of random chains of length 3
    "quick": {"len": 2, "per": 3, "random": 4000},
    "thorough": {"len": 2, "per": 3, "random": 120000},  # + random chains of length 3 (TLC -seed)
}

RULE = ("cases = every realisable chain of real authenticators up to length 2 plus TLC-seeded random chains of "
        "length 3 (4000 quick, 120000 thorough), over type x allow_fallback_on_error mode (off / on in catalogue / on via rule "
        "override / switched off by rule override) x credential class (none / rejected / valid / infra), "
        "enumerated by TLC (AuthnRealGen), each realised with seeded choices of the credential source (default "
        "Authorization header, custom header with scheme, cookie, query parameter, composite) and shape (absent "
        "/ other scheme; wrong password / wrong user; bad signature / untrusted issuer / expired; inactive / "
        "untrusted issuer; 401); distinct = by steps (type, mode, class, source, shape); non-trivial = chains of "
        "at least two steps where the specification's run fails or the subject is not the first step's")


def case_key(c):
    d = [[s[k] for k in ("atype", "fbmode", "class", "src", "shape")] for s in c["authn"]]
    return hashlib.sha1(json.dumps(d).encode()).hexdigest()


def facts_of(c, reasons, expected):
    """Trigger fields: the chain as constructed and the specification's expectation + failed comparison."""
    steps = c["authn"]
    consulted = set(expected.get("consulted", []))
    last = [s for s in steps if s["n"] in consulted][-1:] or [None]
    f = {
        "part": "real",
        "reason": ",".join(sorted(reasons)),
        "exp_positive": expected.get("positive"),
        "chain": ">".join("%s:%s:%s" % (s["atype"], s["class"], "fb" if s["fb"] else "nofb") for s in steps),
        "types": ">".join(s["atype"] for s in steps),
        "length": len(steps),
    }
    # the step whose handling decides the case: the last one the specification consults
    if last[0]:
        s = last[0]
        f.update({"step_type": s["atype"], "step_class": s["class"], "step_shape": s["shape"].split("@")[0],
                  "step_src": s["src"], "step_fbmode": s["fbmode"]})
    return f


def judge(work, trace_path, tag=""):
    out = work.path("c04r_verdict%s.json" % tag)
    r = tlc_expect_ok(work, "AuthnRealTrace", "AuthnRealTrace.cfg",
                      env={"VERIF_TRACE": trace_path, "VERIF_OUT": out}, workers=1, timeout=3000, heap="8g")
    v = json.load(open(out))
    v["tlc_states"] = r.distinct
    return v


def produce(work, binary, tier, seed):
    t = TIERS[tier]
    chains = work.path("c04r_chains.ndjson")
    g = tlc_expect_ok(work, "AuthnRealGen", "AuthnRealGen.cfg",
                      env={"VERIF_GEN_OUT": chains, "VERIF_GEN_LEN": t["len"], "VERIF_GEN_RANDOM": t["random"],
                           "VERIF_GEN_RANDLEN": 3}, seed=seed, workers=1, timeout=3000, heap="8g")
    ngen = sum(1 for _ in open(chains))
    log("generated %d chains of real authenticators in %.1fs" % (ngen, g.wall))
    trace = work.path("c04r_trace.ndjson")
    args = ["-cases", chains, "-trace", trace, "-seed", seed, "-fixtures", FIXTURES, "-per", t["per"]]
    log(run_driver(binary, args).strip())
    return trace, ngen


def reproduce(work, binary, lines, bad, times=3):
    by_id = {c["id"]: c for c in lines}
    cand = [by_id[b["id"]] for b in bad]
    info = {b["id"]: b for b in bad}
    for i in range(times):
        if not cand:
            break
        cf = work.path("c04r_repro%d.ndjson" % i)
        tf = work.path("c04r_repro%d.trace.ndjson" % i)
        write_ndjson(cf, cand)
        run_driver(binary, ["-concrete", "-cases", cf, "-trace", tf, "-fixtures", FIXTURES, "-workers", 4])
        v = judge(work, tf, tag="_r%d" % i)
        info = {b["id"]: b for b in v["bad"]}
        got = {c["id"]: c for c in read_ndjson(tf)}
        cand = [got[i_] for i_ in info]
    return [(c, info[c["id"]]) for c in cand]


def binding_selftest(work, lines):
    """Corrupts recorded observations; TLC must reject exactly the corrupted lines."""
    mutated = []
    for kind in ("flip_outcome", "foreign_subject", "later_step_subject", "unconsulted_endpoint_called"):
        n = 0
        for c in lines:
            o = c["obs"]
            m = copy.deepcopy(c)
            if kind == "flip_outcome":
                m["obs"]["positive"] = not o["positive"]
                m["obs"]["subject"] = "" if o["positive"] else c["authn"][0]["n"]
            elif kind == "foreign_subject" and o["positive"]:
                m["obs"]["subject"] = "anonymous"
            elif kind == "later_step_subject" and o["positive"] and len(c["authn"]) > 1 \
                    and o["subject"] == c["authn"][0]["n"]:
                m["obs"]["subject"] = c["authn"][1]["n"]
            elif kind == "unconsulted_endpoint_called" and o["positive"] and len(c["authn"]) > 1 \
                    and o["subject"] == c["authn"][0]["n"]:
                m["obs"]["calls"][1] = 1
            else:
                continue
            m["id"] = "%s-%s" % (c["id"], kind)
            mutated.append(m)
            n += 1
            if n >= 25:
                break
    if len(mutated) < 4:
        raise Infra("C04R binding self-test: nothing to corrupt")
    tf = work.path("c04r_selftest.ndjson")
    write_ndjson(tf, mutated)
    v = judge(work, tf, tag="_self")
    if len(v["bad"]) != len(mutated):
        raise Infra("C04R binding self-test failed: %d corrupted observations, %d rejected"
                    % (len(mutated), len(v["bad"])))
    return {"corrupted": len(mutated), "rejected": len(v["bad"]),
            "kinds": ["flip_outcome", "foreign_subject", "later_step_subject", "unconsulted_endpoint_called"]}


def run_into(verdict, work, tier, seed):
    """Runs the real-authenticator cases and records violations / known findings in `verdict`.
    Returns (number of violations added, coverage dict)."""
    if not os.path.isdir(FIXTURES):
        raise Infra("key fixtures missing: %s" % FIXTURES)
    binary = build_driver(cmd="c04rdrv")
    trace, ngen = produce(work, binary, tier, seed)
    v = judge(work, trace)
    lines = read_ndjson(trace)
    if v["lines"] != len(lines) or not lines:
        raise Infra("C04R trace length mismatch: TLC consumed %d of %d" % (v["lines"], len(lines)))
    if v["div"]:
        # the credential classes did not reach the endpoints the way they were constructed
        log("C04R: %d binding divergences (endpoint call pattern), e.g. %s" % (len(v["div"]), v["div"][0]))

    known = load_known(PROP)
    confirmed = []
    if v["bad"]:
        log("C04R: %d cases rejected by TLC; re-executing them in isolation" % len(v["bad"]))
        confirmed = reproduce(work, binary, lines, v["bad"])
    before = len(verdict.violations)
    for c, b in confirmed:
        facts = facts_of(c, b["reasons"], b["expected"])
        k = match_known(known, facts)
        if k:
            verdict.known_finding(k)
        else:
            path = (save_replay("C04R", case_key(c)[:12], [c]) if len(verdict.violations) < 20 else "(not saved)")
            verdict.violation(path, ",".join(b["reasons"]) + " " + json.dumps(facts))

    selftest = binding_selftest(work, lines)
    distinct = {case_key(c) for c in lines}
    status = {}
    shapes = {}
    for c in lines:
        k = "%s/%d" % ("ok" if c["obs"]["positive"] else "fail", c["obs"]["status"])
        status[k] = status.get(k, 0) + 1
        for s in c["authn"]:
            k = "%s:%s:%s:%s" % (s["atype"], s["class"], s["shape"].split("@")[0], s["src"])
            shapes[k] = shapes.get(k, 0) + 1
    cov = {
        "chains_generated_by_tlc": ngen,
        "cases": len(lines),
        "distinct_cases": len(distinct),
        "nontrivial_cases": v["nontrivial"],
        "max_chain_length": 3 if TIERS[tier]["random"] else TIERS[tier]["len"],
        "random_chains_of_length_3": TIERS[tier]["random"],
        "rejected_by_tlc": len(v["bad"]),
        "reproduced": len(confirmed),
        "binding_divergences": len(v["div"]),
        "divergence_samples": v["div"][:3],
        "binding_selftest": selftest,
        "outcomes": status,
        "step_shapes_exercised": len(shapes),
        "rule": RULE,
        "samples": [c for c in lines if len(c["authn"]) > 1][:2],
    }
    return len(verdict.violations) - before, cov


def is_real_replay(path):
    try:
        first = read_ndjson(path, limit=1)
        return bool(first) and first[0].get("fam") == "real"
    except (OSError, ValueError):
        return False


def do_replay(work, replay):
    binary = build_driver(cmd="c04rdrv")
    tf = work.path("c04r_replay.trace.ndjson")
    run_driver(binary, ["-concrete", "-cases", os.path.abspath(replay), "-trace", tf, "-fixtures", FIXTURES,
                        "-workers", 2])
    v = judge(work, tf, tag="_replay")
    for b in v["bad"]:
        print("VIOLATION property=%s replay=%s  # %s" % (PROP, replay, ",".join(b["reasons"])))
    print("replayed %d cases, %d rejected" % (v["lines"], len(v["bad"])))
    return 1 if v["bad"] else 0


def run(tier, seed, replay=None):
    """Stand-alone: design run of PipelineMC (the automaton whose authentication stage is judged) + the
    real-authenticator cases; evidence in evidence/C04R.json."""
    from concurrent.futures import ThreadPoolExecutor
    import pipeline
    verdict = Verdict("C04R", tier, seed)
    work = Work("C04R")
    try:
        if replay:
            return do_replay(work, replay)
        with ThreadPoolExecutor(max_workers=2) as ex:
            d = ex.submit(pipeline.design_run, work, verdict, tier == "quick")
            r = ex.submit(run_into, verdict, work, tier, seed)
            d.result()
            _, cov = r.result()
        verdict.coverage.update({
            "traces_validated_against_impl": cov["cases"],
            "evaluations": cov["cases"],
            "distinct_nontrivial": min(cov["distinct_cases"], cov["nontrivial_cases"]),
            "rule": cov["rule"],
            "binding_selftest": cov["binding_selftest"],
            "samples": cov["samples"],
            "real_authenticators": cov,
        })
        verdict.assumptions += [
            "credential classes hold by construction of the request (own user / key / token per step, local "
            "servers decide by the credential's content); malformed credentials (bad base64, alg none, wrong "
            "scheme casing) are not generated: the statement does not say which class they are",
            "which failure status is returned (401 / 502) is not judged here (C12)",
        ]
        return verdict.finish()
    finally:
        work.close()


if __name__ == "__main__":
    import argparse
    import verif
    ap = argparse.ArgumentParser()
    ap.add_argument("--tier", default="quick")
    ap.add_argument("--seed", type=int, default=1)
    ap.add_argument("--replay")
    a = ap.parse_args()
    try:
        rc = run(a.tier, a.seed, a.replay)
    except Infra as e:
        print("INFRASTRUCTURE FAILURE (no verdict): %s" % e, file=sys.stderr)
        rc = 2
    finally:
        verif.cleanup_binaries()
    sys.exit(rc)
