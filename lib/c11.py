"""C11 - cached results are reused exactly for requests equal in all they depend on
(CacheKey.tla, harness/c11, c11drv)."""
import copy
import hashlib
import json
import os
import sys
from concurrent.futures import ThreadPoolExecutor

from verif import (Infra, Verdict, Work, build_driver, load_known, log, match_known, read_ndjson,
                   run_driver, save_replay, tlc_expect_ok, tlc_expect_violation, write_ndjson)

PROP = "C11"
NEGATIVE = {
    "omit_policy": "InvNoCrossReuse",   # key omits the rule-level policy (validated before caching only)
    "omit_input": "InvNoCrossReuse",    # a component (subject hash) dropped from the key
    "concat": "InvNoCrossReuse",        # components concatenated without delimiters
    "unstable": "InvReuseWhenEqual",    # iteration order enters the key
    "somehit": "SomeHit",               # vacuity control
}
RULE = ("pairs = (first, second) evaluations enumerated by TLC (CacheKeyGen) from the component tables of the nine "
        "caching mechanisms: equal (for 0..4 endpoint headers x 0..4 values/scopes), differing in exactly one "
        "component (every component incl. the rule-level policy), boundary shifts across adjacent components; each "
        "pair is executed REPS times with everything rebuilt (new prototypes, maps, cache), with the cache and with "
        "caching disabled; distinct = by abstract pair; non-trivial = pairs other than 'equal'")
SITE = {"cc_finalizer": "clientcredentials", "cc_strategy": "clientcredentials"}


def design_run(work, verdict, tier):
    main_cfg = "CacheKeyMC.cfg" if tier == "quick" else "CacheKeyMC_deep.cfg"
    with ThreadPoolExecutor(max_workers=6) as ex:
        main = ex.submit(tlc_expect_ok, work, "CacheKeyMC", main_cfg, workers=4, timeout=1500, heap="6g")
        neg = {m: ex.submit(tlc_expect_violation, work, "CacheKeyMC", "CacheKeyMC_%s.cfg" % m, inv,
                            workers=2, timeout=600) for m, inv in NEGATIVE.items()}
        r = main.result()
        refuted = {m: f.result().violated for m, f in neg.items()}
    verdict.coverage["states"] = r.distinct
    verdict.coverage["transitions"] = r.generated
    verdict.coverage["design_run"] = {
        "module": "CacheKeyMC", "config": main_cfg, "distinct_states": r.distinct, "generated": r.generated,
        "invariants": ["InvNoCrossReuse", "InvReuseWhenEqual"], "wall_s": round(r.wall, 1),
        "negative_controls_refuted": refuted,
    }


def generate(work, seed):
    pairs = work.path("pairs.ndjson")
    g = tlc_expect_ok(work, "CacheKeyGen", "CacheKeyGen.cfg", env={"VERIF_GEN_OUT": pairs}, workers=1,
                      timeout=600, seed=seed)
    n = sum(1 for _ in open(pairs))
    log("CacheKeyGen: %d abstract pairs in %.1fs" % (n, g.wall))
    return pairs, n


def reps_of(tier):
    return 40 if tier == "quick" else 400


def drive(binary, pairs, trace, seed, reps, concrete=False):
    args = ["-pairs", pairs, "-trace", trace, "-seed", seed, "-reps", reps]
    if concrete:
        args.append("-concrete")
    return run_driver(binary, args, timeout=3000).strip()


def judge(work, trace, tag=""):
    out = work.path("verdict%s.json" % tag)
    r = tlc_expect_ok(work, "CacheKeyTrace", "CacheKeyTrace.cfg",
                      env={"VERIF_TRACE": trace, "VERIF_OUT": out}, workers=1, timeout=3000, heap="8g")
    v = json.load(open(out))
    v["tlc_states"] = r.distinct
    return v


def bad_by_pair(v):
    out = {}
    for b in v["bad"]:
        out.setdefault(b["id"], {}).setdefault(b["reason"], set()).add(b["pos"])
    return out


def facts_of(p, reason):
    """Trigger fields of a rejected pair (abstract pair only) + the failed comparison."""
    return {"mech": p["mech"], "site": SITE.get(p["mech"], p["mech"]), "rel": p["rel"], "comp": p["comp"],
            "nh": p["nh"], "nv": p["nv"], "hdr_unordered": p["hdr_unordered"],
            "val_unordered": p["val_unordered"], "reason": reason}


def pair_key(p):
    d = {k: v for k, v in p.items() if k != "id"}
    return hashlib.sha1(json.dumps(d, sort_keys=True).encode()).hexdigest()


def reproduce(work, binary, pairs, bad, reps, seed, times=3):
    """Re-executes rejected pairs (all repetitions) `times` times; a (pair, reason) counts only
    if it is rejected in every re-execution."""
    pf = work.path("repro.ndjson")
    write_ndjson(pf, [pairs[i] for i in bad])

    def once(k):
        tf = work.path("repro%d.trace.ndjson" % k)
        drive(binary, pf, tf, seed + k, reps, concrete=True)
        return bad_by_pair(judge(work, tf, tag="_r%d" % k))

    with ThreadPoolExecutor(max_workers=times) as ex:
        results = list(ex.map(once, range(times)))
    confirmed = {}
    for i, reasons in bad.items():
        keep = set(reasons)
        for r in results:
            keep &= set(r.get(i, {}))
        if keep:
            confirmed[i] = keep
    return confirmed


def binding_selftest(work, lines, bad):
    """Corrupts recorded observations of accepted pairs and checks that TLC rejects exactly them:
    (a) the hit of an equal second evaluation is turned into a miss with a remote call,
    (b) a differing second evaluation is turned into a hit that carries the first's decision,
    (c) the decision of a fresh evaluation is altered (cache changes a decision),
    (d) the first evaluation is dropped (the hit of the second is then unexplained)."""
    by = {}
    for ln in lines:
        by.setdefault((ln["id"], ln["rep"]), []).append(ln)
    mutated, expect = [], {}
    counts = {"hit-to-miss": 0, "miss-to-crosshit": 0, "decision-altered": 0, "first-dropped": 0}
    for (i, rep), evs in by.items():
        if i in bad or len(evs) != 2 or (i in expect):
            continue
        a, b = copy.deepcopy(evs[0]), copy.deepcopy(evs[1])
        rel = a["c"]["rel"]
        if rel == "equal" and b["hit"] and counts["hit-to-miss"] < 10:
            b["hit"], b["remote"] = False, 1
            mutated += [a, b]
            expect[i] = "no-reuse-when-equal"
            counts["hit-to-miss"] += 1
        elif rel == "equal" and b["hit"] and counts["first-dropped"] < 10:
            mutated += [b]
            expect[i] = "hit-on-empty-cache"
            counts["first-dropped"] += 1
        elif rel == "differ" and not b["hit"] and a["decision"] != b["decision"] and counts["miss-to-crosshit"] < 10:
            b["hit"], b["remote"], b["decision"] = True, 0, a["decision"]
            mutated += [a, b]
            expect[i] = "cross-reuse"
            counts["miss-to-crosshit"] += 1
        elif rel == "differ" and not b["hit"] and counts["decision-altered"] < 10:
            b["decision"] = b["decision"] + " altered"
            mutated += [a, b]
            expect[i] = "cache-changes-decision"
            counts["decision-altered"] += 1
    if min(counts.values()) == 0:
        raise Infra("binding self-test: nothing to corrupt for %s" % counts)
    tf = work.path("selftest.ndjson")
    write_ndjson(tf, mutated)
    got = bad_by_pair(judge(work, tf, tag="_self"))
    missed = [i for i, r in expect.items() if r not in got.get(i, {})]
    if missed:
        raise Infra("binding self-test failed: %d corrupted pairs not rejected, e.g. %s expected %s got %s"
                    % (len(missed), missed[0], expect[missed[0]], got.get(missed[0])))
    return {"corrupted": len(expect), "rejected": len(expect), "kinds": counts}


def run(tier, seed, replay=None):
    verdict = Verdict(PROP, tier, seed)
    work = Work(PROP)
    reps = reps_of(tier)
    try:
        binary = build_driver(cmd="c11drv")
        if replay:
            return do_replay(work, binary, replay, reps, seed)

        def produce():
            pairs, ngen = generate(work, seed)
            trace = work.path("trace.ndjson")
            log(drive(binary, pairs, trace, seed, reps))
            return trace, ngen

        with ThreadPoolExecutor(max_workers=2) as ex:
            d = ex.submit(design_run, work, verdict, tier)
            p = ex.submit(produce)
            d.result()
            trace, ngen = p.result()

        v = judge(work, trace)
        lines = read_ndjson(trace)
        if v["lines"] != len(lines) or not lines:
            raise Infra("trace length mismatch: TLC consumed %d of %d" % (v["lines"], len(lines)))
        pairs = {ln["id"]: ln["c"] for ln in lines}
        bad = bad_by_pair(v)

        confirmed = {}
        if bad:
            log("%d pairs rejected by TLC; re-executing them 3x (up to 100 repetitions each)" % len(bad))
            confirmed = reproduce(work, binary, pairs, bad, min(reps, 100), seed)

        known = load_known(PROP)
        for i, reasons in sorted(confirmed.items()):
            for reason in sorted(reasons):
                f = facts_of(pairs[i], reason)
                k = match_known(known, f)
                if k:
                    verdict.known_finding(k)
                else:
                    path = (save_replay(PROP, pair_key(pairs[i])[:12], [pairs[i]])
                            if len(verdict.violations) < 20 else "(not saved)")
                    verdict.violation(path, reason + " " + json.dumps(f, sort_keys=True))

        selftest = binding_selftest(work, lines, bad)

        distinct = len({pair_key(p) for p in pairs.values()})
        harmless = sorted({(pairs[i]["mech"], pairs[i]["rel"], pairs[i]["comp"]) for i in v["harmless"]
                           if pairs[i]["rel"] != "open"})
        open_reuse = sorted({(pairs[i]["mech"], pairs[i]["comp"]) for i in v["harmless"] if pairs[i]["rel"] == "open"})
        verdict.coverage.update({
            "traces_validated_against_impl": len(lines) // 2,
            "evaluations": 2 * len(lines),
            "distinct_nontrivial": min(distinct, v["nontrivial"]),
            "rule": RULE.replace("REPS", str(reps)),
            "generated_by_tlc": ngen,
            "distinct_pairs": distinct,
            "repetitions_per_pair": reps,
            "expected_hits": v["expected_hits"],
            "rejected_pairs": len(bad),
            "rejected_evaluations": v["rejected_evaluations"],
            "reproduced_pairs": len(confirmed),
            "not_reproduced": sorted(set(bad) - set(confirmed))[:10],
            "observations_harmless_reuse_across_different_inputs": [list(h) for h in harmless],
            "observations_left_open_reuse_changing_the_result": [list(h) for h in open_reuse],
            "mechanisms": sorted({p["mech"] for p in pairs.values()}),
            "binding_selftest": selftest,
            "samples": lines[:2],
        })
        verdict.assumptions += [
            "'all they depend on' = rule-level assertions/expressions (policy), subject, rendered payload and values, "
            "presented credential, mechanism identity/endpoint, values of the forwarded request headers and cookies; "
            "reuse across Outputs used only in endpoint templates is left open",
            "remote systems are local test servers whose answer is a digest of everything they receive",
        ]
        return verdict.finish()
    finally:
        work.close()


def do_replay(work, binary, replay, reps, seed):
    tf = work.path("replay.trace.ndjson")
    drive(binary, os.path.abspath(replay), tf, seed, reps, concrete=True)
    v = judge(work, tf, tag="_replay")
    bad = bad_by_pair(v)
    for i, reasons in sorted(bad.items()):
        print("VIOLATION property=%s replay=%s  # %s" % (
            PROP, replay, ",".join(sorted(reasons))))
    print("replayed %d evaluations, %d pairs rejected" % (v["lines"], len(bad)))
    return 1 if bad else 0


if __name__ == "__main__":
    import argparse
    import verif
    ap = argparse.ArgumentParser()
    ap.add_argument("--tier", default="quick")
    ap.add_argument("--seed", type=int, default=1)
    ap.add_argument("--replay")
    a = ap.parse_args()
    try:
        rc = run(a.tier, a.seed, a.replay)
    except Infra as e:
        print("INFRASTRUCTURE FAILURE (no verdict): %s" % e, file=sys.stderr)
        rc = 2
    finally:
        verif.cleanup_binaries()
    sys.exit(rc)
