"""Generic check for pattern-F properties: independent, fully logged cases with an `id` and an `obs`,
judged by a single-action TLA+ trace module that writes {lines, nontrivial, bad:[{id, reasons, ...}]}."""
import copy
import hashlib
import json
import os
from concurrent.futures import ThreadPoolExecutor

from verif import (Infra, Verdict, Work, build_driver, load_known, log, match_known, read_ndjson,
                   run_driver, save_replay, tlc_expect_ok, tlc_expect_violation, write_ndjson)


def case_key(c):
    d = {k: v for k, v in c.items() if k not in ("id", "obs")}
    return hashlib.sha1(json.dumps(d, sort_keys=True).encode()).hexdigest()


class CaseCheck:
    prop = None
    trace_module = None          # e.g. "RuleFactoryTrace"
    mc_module = None             # e.g. "RuleFactoryMC"
    mc_invariants = []
    mutants = {}                 # mutant cfg suffix -> invariant expected to be violated
    driver_cmd = "verifdrv"
    rule = ""
    assumptions = []
    trace_env = {}

    # -- hooks ---------------------------------------------------------------
    def generate(self, work, tier, seed):
        """Runs the TLC-side generator; returns (path, count) or (None, 0)."""
        return None, 0

    def driver_args(self, gen_path, trace_path, tier, seed):
        raise NotImplementedError

    def replay_args(self, cases_path, trace_path):
        raise NotImplementedError

    def facts(self, case, bad):
        return {"reason": ",".join(sorted(bad["reasons"]))}

    def corrupt(self, case):
        """Returns a corrupted copy of the case that the trace spec must reject, or None."""
        return None

    # -- machinery -----------------------------------------------------------
    def design(self, work, verdict):
        with ThreadPoolExecutor(max_workers=1 + len(self.mutants)) as ex:
            main = ex.submit(tlc_expect_ok, work, self.mc_module, self.mc_module + ".cfg", workers=4, timeout=1800)
            muts = {m: ex.submit(tlc_expect_violation, work, self.mc_module, "%s_%s.cfg" % (self.mc_module, m),
                                 inv, workers=2, timeout=900) for m, inv in self.mutants.items()}
            r = main.result()
            refuted = {m: f.result().violated for m, f in muts.items()}
        verdict.coverage["states"] = r.distinct
        verdict.coverage["transitions"] = r.generated
        verdict.coverage["design_run"] = {
            "module": self.mc_module, "distinct_states": r.distinct, "generated": r.generated,
            "invariants": self.mc_invariants, "negative_controls_refuted": refuted, "wall_s": round(r.wall, 1),
        }

    def judge(self, work, trace, tag=""):
        out = work.path("verdict%s.json" % tag)
        env = {"VERIF_TRACE": trace, "VERIF_OUT": out}
        env.update(self.trace_env)
        r = tlc_expect_ok(work, self.trace_module, self.trace_module + ".cfg", env=env, workers=1,
                          timeout=3000, heap="10g")
        v = json.load(open(out))
        v["tlc_states"] = r.distinct
        return v

    def run(self, tier, seed, replay):
        verdict = Verdict(self.prop, tier, seed)
        work = Work(self.prop)
        try:
            binary = build_driver(cmd=self.driver_cmd)
            if replay:
                tf = work.path("replay.trace.ndjson")
                run_driver(binary, self.replay_args(os.path.abspath(replay), tf))
                v = self.judge(work, tf, "_replay")
                for b in v["bad"]:
                    print("VIOLATION property=%s replay=%s  # %s" % (self.prop, replay, ",".join(b["reasons"])))
                print("replayed %d cases, %d rejected" % (v["lines"], len(v["bad"])))
                return 1 if v["bad"] else 0

            trace = work.path("trace.ndjson")

            def produce():
                gen_path, n = self.generate(work, tier, seed)
                log(run_driver(binary, self.driver_args(gen_path, trace, tier, seed)).strip())
                return n

            with ThreadPoolExecutor(max_workers=2) as ex:
                d = ex.submit(self.design, work, verdict)
                p = ex.submit(produce)
                d.result()
                ngen = p.result()

            v = self.judge(work, trace)
            lines = read_ndjson(trace)
            if v["lines"] != len(lines) or not lines:
                raise Infra("trace length mismatch: TLC consumed %d of %d" % (v["lines"], len(lines)))

            by_id = {c["id"]: c for c in lines}
            bad = {b["id"]: b for b in v["bad"]}
            if bad:
                log("%d cases rejected; re-executing them in isolation" % len(bad))
            cand = [by_id[i] for i in bad]
            for i in range(2):
                if not cand:
                    break
                cf, tf = work.path("repro%d.ndjson" % i), work.path("repro%d.trace.ndjson" % i)
                # with the cases that shared state with them in the first run (same service, same order)
                write_ndjson(cf, self.context(lines, cand))
                run_driver(binary, self.replay_args(cf, tf))
                rv = self.judge(work, tf, "_r%d" % i)
                wanted = {c["id"] for c in cand}
                still = {b["id"]: b for b in rv["bad"] if b["id"] in wanted}
                got = {c["id"]: c for c in read_ndjson(tf)}
                cand = [got[k] for k in still]
                bad = still

            known = load_known(self.prop)
            for c in cand:
                b = bad[c["id"]]
                k = match_known(known, self.facts(c, b))
                if k:
                    verdict.known_finding(k)
                else:
                    path = save_replay(self.prop, case_key(c)[:12], self.context(lines, [c])) \
                        if len(verdict.violations) < 20 else "(not saved)"
                    verdict.violation(path, ",".join(b["reasons"]) + " " + json.dumps(self.facts(c, b)))

            # behaviour the specification covers beyond the property's statement: reported, never an alarm
            if v.get("diverged"):
                d = v["diverged"]
                log("%d cases diverge from the specification outside the property's statement, e.g. %s"
                    % (len(d), json.dumps(d[0])))
            if "diverged" in v:
                verdict.coverage["model_divergences"] = len(v["diverged"])
                verdict.coverage["divergence_samples"] = v["diverged"][:3]

            selftest = self.selftest(work, lines)
            distinct = len({case_key(c) for c in lines})
            verdict.coverage.update({
                "traces_validated_against_impl": len(lines),
                "evaluations": len(lines),
                "distinct_nontrivial": min(distinct, v["nontrivial"]),
                "rule": self.rule,
                "generated_by_tlc": ngen,
                "distinct_cases": distinct,
                "nontrivial_cases": v["nontrivial"],
                "rejected_by_tlc": len(v["bad"]),
                "reproduced": len(cand),
                "binding_selftest": selftest,
                "samples": lines[:3],
            })
            verdict.assumptions += self.assumptions
            return verdict.finish()
        finally:
            work.close()

    def context(self, lines, cand):
        """The cases to execute again for the rejected cases `cand`: by default just those. Checks whose
        cases share state in the first run (one service for many cases) return them with their
        companions, in the order of the first run."""
        return cand

    def selftest(self, work, lines):
        mutated = []
        for c in lines:
            m = self.corrupt(copy.deepcopy(c))
            if m is not None:
                mutated.append(m)
            if len(mutated) >= 40:
                break
        if not mutated:
            raise Infra("binding self-test: nothing to corrupt")
        tf = work.path("selftest.ndjson")
        write_ndjson(tf, mutated)
        v = self.judge(work, tf, "_self")
        if len(v["bad"]) != len(mutated):
            raise Infra("binding self-test failed: %d corrupted observations, %d rejected"
                        % (len(mutated), len(v["bad"])))
        return {"corrupted": len(mutated), "rejected": len(v["bad"])}
