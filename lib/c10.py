"""C10 - nothing is reused from a cache beyond its validity (CacheTime.tla, harness/c10, c10drv)."""
import copy
import hashlib
import json
import os
import re
import sys
from concurrent.futures import ThreadPoolExecutor

from verif import (Infra, Verdict, Work, build_driver, load_known, log, match_known, read_ndjson,
                   run_driver, save_replay, tlc_expect_ok, tlc_expect_violation, write_ndjson)

PROP = "C10"
ALL_INV = ["InvNoHitAfterExpiry", "InvEntryWithinValidity", "InvEntryLifetime", "InvZeroTTL",
           "InvStoredOnlyIfFresh", "InvTokenNotExpired"]
# negative controls: cfg suffix -> invariant the mutant model must violate
NEGATIVE = {
    "no_guard": "InvNoHitAfterExpiry",            # "ttl > 0" guard dropped, in-memory back end
    "no_guard_fresh": "InvStoredOnlyIfFresh",     # time.Until(expires) <= 0 handed to the store
    "fallback_cfg": "InvNoHitAfterExpiry",        # configured TTL used when nothing remains
    "fallback_cfg_refuse": "InvNoHitAfterExpiry",  # ... also with a refusing back end
    "fallback_cfg_token": "InvTokenNotExpired",
    "ignore_zero": "InvZeroTTL",
    "not_capped": "InvEntryLifetime",
    "leeway_added": "InvNoHitAfterExpiry",
    "somehit": "SomeHit",                          # vacuity control: hits are reachable
}
# positive controls: must hold
POSITIVE = ["refuse", "no_guard_refuse"]

RULE = ("cases = abstract cases enumerated by TLC (CacheTimeGen): expiry offset class x catalogue TTL class x "
        "rule-level override class per mechanism, Cache-Control x Expires x Date x default TTL for the HTTP "
        "cache, and the real-time sequences; each executed as two (three) requests on the real mechanism with "
        "the recording cache; distinct = by abstract case and path (mechanism-level / assembled service); "
        "non-trivial = the case has at least one Set or cache hit (a demand of the statement is exercised)")


def design_run(work, verdict, tier):
    main_cfg = "CacheTimeMC.cfg" if tier == "quick" else "CacheTimeMC_2keys.cfg"
    with ThreadPoolExecutor(max_workers=6) as ex:
        main = ex.submit(tlc_expect_ok, work, "CacheTimeMC", main_cfg, workers=4, timeout=1500, heap="6g")
        pos = {p: ex.submit(tlc_expect_ok, work, "CacheTimeMC", "CacheTimeMC_%s.cfg" % p, workers=2, timeout=600)
               for p in POSITIVE}
        neg = {m: ex.submit(tlc_expect_violation, work, "CacheTimeMC", "CacheTimeMC_%s.cfg" % m, inv,
                            workers=2, timeout=600) for m, inv in NEGATIVE.items()}
        r = main.result()
        refuted = {m: f.result().violated for m, f in neg.items()}
        held = {p: f.result().distinct for p, f in pos.items()}
    verdict.coverage["states"] = r.distinct
    verdict.coverage["transitions"] = r.generated
    verdict.coverage["design_run"] = {
        "module": "CacheTimeMC", "config": main_cfg, "distinct_states": r.distinct, "generated": r.generated,
        "invariants": ALL_INV, "wall_s": round(r.wall, 1),
        "negative_controls_refuted": refuted,
        "positive_controls_held": held,
        "note": "back end 'noexpiry' = ttlcache v3 (ttl <= 0 kept without expiry), 'refuse' = Redis; "
                "no_guard is refuted with noexpiry and holds with refuse",
    }


def generate(work, tier, seed):
    cases = work.path("cases.ndjson")
    g = tlc_expect_ok(work, "CacheTimeGen", "CacheTimeGen.cfg", env={"VERIF_GEN_OUT": cases}, workers=1,
                      timeout=600, seed=seed)
    n = sum(1 for _ in open(cases))
    log("CacheTimeGen: %d abstract cases in %.1fs" % (n, g.wall))
    return cases, n


def drive(binary, cases, trace, seed, tier, concrete=False, extra=None):
    args = ["-cases", cases, "-trace", trace, "-seed", seed,
            "-service", 40 if tier == "quick" else 1500, "-rounds", 1 if tier == "quick" else 5]
    if concrete:
        args.append("-concrete")
    # the service runs in a time zone west of UTC: instants given as text without a zone are UTC all the same
    out = run_driver(binary, args + (extra or []), timeout=1200, env={"TZ": "America/New_York"}).strip()
    m = re.search(r"backend=(\w+)", out)
    return out, (m.group(1) if m else "?")


def judge(work, trace, tag=""):
    out = work.path("verdict%s.json" % tag)
    r = tlc_expect_ok(work, "CacheTimeTrace", "CacheTimeTrace.cfg",
                      env={"VERIF_TRACE": trace, "VERIF_OUT": out}, workers=1, timeout=1800, heap="4g")
    v = json.load(open(out))
    v["tlc_states"] = r.distinct
    return v


def split(lines):
    """Groups trace lines by case id (lines of one case are contiguous)."""
    cases, events = {}, {}
    for ln in lines:
        if ln["ev"] == "case":
            cases[ln["id"]] = ln["c"]
            events[ln["id"]] = [ln]
        else:
            events[ln["id"]].append(ln)
    return cases, events


def bad_by_case(v):
    out = {}
    for b in v["bad"]:
        out.setdefault(b["id"], set()).add(b["reason"])
    return out


SITE = {"cc_finalizer": "clientcredentials", "cc_strategy": "clientcredentials"}


def facts_of(c, reason):
    """Trigger fields of a rejected case (abstract case only) + the failed comparison."""
    return {
        "mech": c["mech"], "site": SITE.get(c["mech"], c["mech"]), "kind": c["kind"], "exp": c["exp"],
        "cfg": c["cfg"], "ovr": c["ovr"], "near": c["near"], "fam": c["fam"],
        "cc": c["http"]["cc"], "expires": c["http"]["expires"], "reason": reason,
    }


def case_key(c):
    d = {k: v for k, v in c.items() if k != "id"}
    return hashlib.sha1(json.dumps(d, sort_keys=True).encode()).hexdigest()


def reproduce(work, binary, cases, bad, tier, seed, times=3):
    """Re-executes rejected cases in isolation `times` times (in parallel processes); a (case,
    reason) counts only if it is rejected every time."""
    cand = [cases[i] for i in bad]
    cf = work.path("repro.ndjson")
    write_ndjson(cf, cand)

    def once(k):
        tf = work.path("repro%d.trace.ndjson" % k)
        drive(binary, cf, tf, seed + k, tier, concrete=True, extra=["-workers", 8])
        return bad_by_case(judge(work, tf, tag="_r%d" % k))

    with ThreadPoolExecutor(max_workers=times) as ex:
        results = list(ex.map(once, range(times)))
    confirmed = {}
    for i, reasons in bad.items():
        keep = set(reasons)
        for r in results:
            keep &= r.get(i, set())
        if keep:
            confirmed[i] = keep
    return confirmed


def binding_selftest(work, lines, bad):
    """Corrupts recorded observations of accepted cases and checks that TLC rejects exactly them:
    (a) a recorded TTL is inflated beyond the configured TTL / the credential's validity,
    (b) the Set event of a case with a later hit is dropped (hit not explained by the store),
    (c) a Set is injected into a case whose effective TTL is zero."""
    cases, events = split(lines)
    mutated, expect = [], {}
    counts = {"ttl-inflated": 0, "set-dropped": 0, "set-injected": 0}
    for i, evs in events.items():
        if i in bad or cases[i]["fam"] == "wait":
            continue
        c = cases[i]
        sets = [k for k, e in enumerate(evs) if e["ev"] == "set" and e["ttl"] > 0]
        hits = [k for k, e in enumerate(evs) if e["ev"] == "get" and e["hit"]]
        m = None
        if sets and (c["c"] > 0 or evs[0]["v_has"]) and c["kind"] != "http" and counts["ttl-inflated"] < 15:
            m = copy.deepcopy(evs)
            m[sets[0]]["ttl"] = 100000000
            expect[i] = ("entry-lifetime-exceeds-configured-ttl" if c["c"] > 0 else "entry-outlives-validity")
            counts["ttl-inflated"] += 1
        elif sets and hits and hits[0] > sets[0] and counts["set-dropped"] < 15:
            m = [e for k, e in enumerate(copy.deepcopy(evs)) if k != sets[0]]
            expect[i] = "hit-not-explained-by-store"
            counts["set-dropped"] += 1
        elif c["c"] == 0 and c["kind"] != "http" and not sets and counts["set-injected"] < 15:
            m = copy.deepcopy(evs)
            inj = copy.deepcopy(m[-1])
            inj.update({"ev": "set", "key": "injected", "ttl": 5000})
            m.insert(len(m) - 1, inj)
            expect[i] = "stored-although-ttl-zero"
            counts["set-injected"] += 1
        if m is not None:
            mutated += m
    if min(counts.values()) == 0:
        raise Infra("binding self-test: nothing to corrupt for %s" % counts)
    tf = work.path("selftest.ndjson")
    write_ndjson(tf, mutated)
    got = bad_by_case(judge(work, tf, tag="_self"))
    missed = [i for i, r in expect.items() if r not in got.get(i, set())]
    if missed:
        raise Infra("binding self-test failed: %d corrupted cases not rejected, e.g. %s expected %s got %s"
                    % (len(missed), missed[0], expect[missed[0]], got.get(missed[0])))
    return {"corrupted": len(expect), "rejected": len(expect), "kinds": counts}


def run(tier, seed, replay=None):
    verdict = Verdict(PROP, tier, seed)
    work = Work(PROP)
    try:
        binary = build_driver(cmd="c10drv")
        if replay:
            return do_replay(work, binary, replay, tier, seed)

        def produce():
            cases, ngen = generate(work, tier, seed)
            trace = work.path("trace.ndjson")
            out, backend = drive(binary, cases, trace, seed, tier)
            log(out)
            return trace, ngen, backend

        with ThreadPoolExecutor(max_workers=2) as ex:
            d = ex.submit(design_run, work, verdict, tier)
            p = ex.submit(produce)
            d.result()
            trace, ngen, backend = p.result()

        v = judge(work, trace)
        lines = read_ndjson(trace)
        if v["lines"] != len(lines) or not lines:
            raise Infra("trace length mismatch: TLC consumed %d of %d" % (v["lines"], len(lines)))
        cases, events = split(lines)
        bad = bad_by_case(v)

        confirmed = {}
        if bad:
            log("%d cases rejected by TLC; re-executing them 3x in isolation" % len(bad))
            confirmed = reproduce(work, binary, cases, bad, tier, seed)

        known = load_known(PROP)
        for i, reasons in sorted(confirmed.items()):
            for reason in sorted(reasons):
                f = facts_of(cases[i], reason)
                k = match_known(known, f)
                if k:
                    verdict.known_finding(k)
                else:
                    path = (save_replay(PROP, case_key(cases[i])[:12], [cases[i]])
                            if len(verdict.violations) < 20 else "(not saved)")
                    verdict.violation(path, reason + " " + json.dumps(f, sort_keys=True))

        selftest = binding_selftest(work, lines, bad)

        nreq = sum(1 for ln in lines if ln["ev"] == "decision")
        distinct = len({case_key(c) for c in cases.values()})
        verdict.coverage.update({
            "traces_validated_against_impl": len(cases),
            "evaluations": nreq,
            "distinct_nontrivial": min(distinct, v["active"]),
            "rule": RULE,
            "generated_by_tlc": ngen,
            "distinct_cases": distinct,
            "cases_with_set_or_hit": v["active"],
            "set_events": v["sets"], "hit_events": v["hits"], "trace_lines": len(lines),
            "rejected_by_tlc": len(bad),
            "rejected_reasons": sorted({r for rs in bad.values() for r in rs}),
            "reproduced": len(confirmed),
            "not_reproduced": sorted(set(bad) - set(confirmed))[:10],
            "store_selftest": {"real_memory_cache_nonpositive_ttl": backend,
                               "real_redis_cache_nonpositive_ttl": "refuse" if any(
                                   ev.get("store") == "redis" and ev.get("backend") == "refuse" for ev in lines) else "?",
                               "meaning": "noexpiry = Set with ttl <= 0 keeps the entry without expiry; refuse = such a "
                                          "Set stores nothing"},
            "cases_by_store": {k: sum(1 for ev in lines if ev.get("ev") == "case" and (ev.get("store") or "memory") == k)
                               for k in ("memory", "redis")},
            "via": {k: sum(1 for c in cases.values() if c["via"] == k) for k in ("mechanism", "service")},
            "mechanisms": sorted({c["mech"] for c in cases.values()}),
            "binding_selftest": selftest,
            "samples": [events[i] for i in list(events)[:2]],
        })
        verdict.assumptions += [
            "time is not virtualised: expiries are offsets from time.Now() chosen by the driver, every class keeps "
            ">= 3 s from every threshold; exact-boundary behaviour is not explored",
            "every third mechanism-level case keeps its entries in the real redis cache (internal/cache/redis, "
            "standalone, client-side cache off) talking to miniredis, whose clock the driver moves to the wall clock "
            "before every Get and Set; the others and all cases run through the assembled service use the real "
            "in-memory cache",
            "remote systems are local test servers",
        ]
        return verdict.finish()
    finally:
        work.close()


def do_replay(work, binary, replay, tier, seed):
    tf = work.path("replay.trace.ndjson")
    drive(binary, os.path.abspath(replay), tf, seed, tier, concrete=True, extra=["-workers", 4])
    v = judge(work, tf, tag="_replay")
    bad = bad_by_case(v)
    for i, reasons in sorted(bad.items()):
        print("VIOLATION property=%s replay=%s  # %s" % (PROP, replay, ",".join(sorted(reasons))))
    print("replayed %d lines, %d cases rejected" % (v["lines"], len(bad)))
    return 1 if bad else 0


if __name__ == "__main__":
    import argparse
    import verif
    ap = argparse.ArgumentParser()
    ap.add_argument("--tier", default="quick")
    ap.add_argument("--seed", type=int, default=1)
    ap.add_argument("--replay")
    a = ap.parse_args()
    try:
        rc = run(a.tier, a.seed, a.replay)
    except Infra as e:
        print("INFRASTRUCTURE FAILURE (no verdict): %s" % e, file=sys.stderr)
        rc = 2
    finally:
        verif.cleanup_binaries()
    sys.exit(rc)
