"""C17 - mechanisms are immutable once loaded; rule-level overrides stay local.

Specification: spec/Mechanisms.tla (+ MechanismsOps, MechanismsMC, MechanismsGen, MechanismsTrace).
Driver: harness/c17 + harness/cmd/c17drv.

Parts of one run
  design  exhaustive TLC run of MechanismsMC (three rules creating variants of one catalogue entry in any
          order with any override, two goroutines executing any live object) with Frozen, Local, NoRace;
          five negative controls that TLC must refute
  gen     MechanismsGen: orders of creating 3 variants interleaved with executions
  seq     every mechanism type of the five categories: prototype + variants from the real
          MechanismFactory along the schedules; after every step the deep structural fingerprint of every
          live object, at every execution the behavioural probe; reference behaviours from a second,
          pristine service whose catalogue holds the overlaid configurations
  conc    prototype + 2 variants of every type executed by 8 goroutines on the -race build; a race report
          is a violation of Frozen / NoRace
The traces are judged by TLC with MechanismsTrace.
"""
import copy
import json
import os
from concurrent.futures import ThreadPoolExecutor

import c1617
from verif import (Infra, Verdict, Work, load_known, log, match_known, read_ndjson, save_replay,
                   tlc_expect_ok, tlc_expect_violation, write_ndjson)

PROP = "C17"
DIRS = ["app", "client", "trace", "c17"]
FIXTURES = os.path.join(os.path.dirname(os.path.dirname(os.path.abspath(__file__))), "fixtures")

NEG_CONTROLS = [
    ("shared_map", "Frozen"),
    ("shared_map_local", "Local"),
    ("lazy_init", "Frozen"),
    ("lazy_init_race", "NoRace"),
    ("inherit_variant", "Local"),
]

PARAMS = {
    "quick": dict(per_type=12, iter=40),
    "thorough": dict(per_type=0, iter=600),
}


def design_run(work, verdict):
    with ThreadPoolExecutor(max_workers=3) as ex:
        main = ex.submit(tlc_expect_ok, work, "MechanismsMC", "MechanismsMC.cfg", workers=4, timeout=900)
        negs = {m: ex.submit(tlc_expect_violation, work, "MechanismsMC", "MechanismsMC_%s.cfg" % m, inv,
                             workers=1, timeout=600) for m, inv in NEG_CONTROLS}
        r = main.result()
        refuted = {m: f.result().violated for m, f in negs.items()}
    verdict.coverage["states"] = r.distinct
    verdict.coverage["transitions"] = r.generated
    verdict.coverage["design_run"] = {
        "module": "MechanismsMC",
        "configuration": "1 catalogue entry with 2 options, 3 rules x 4 overrides (empty, a, b, a+b) in any order, "
                         "2 goroutines x 2 executions of any live object",
        "distinct_states": r.distinct, "generated": r.generated,
        "invariants": ["TypeOK", "Frozen", "Local", "NoRace"], "properties": ["FrozenStep"],
        "wall_s": round(r.wall, 1), "negative_controls_refuted": refuted,
    }


def generate(work):
    scheds = work.path("schedules.ndjson")
    tlc_expect_ok(work, "MechanismsGen", "MechanismsGen.cfg", env={"VERIF_GEN_OUT": scheds}, workers=1, timeout=600)
    n = sum(1 for _ in open(scheds))
    if n == 0:
        raise Infra("MechanismsGen wrote no schedule")
    return scheds, n


def judge(work, trace, tag):
    out = work.path("verdict_%s.json" % tag)
    r = tlc_expect_ok(work, "MechanismsTrace", "MechanismsTrace.cfg", env={"VERIF_TRACE": trace, "VERIF_OUT": out},
                      workers=1, timeout=1800, heap="6g")
    v = json.load(open(out))
    v["tlc_states"] = r.distinct
    return v


def drv(binary, part, work, tag, args, seed, race_log=None, attempts=3):
    trace = work.path("%s.ndjson" % tag)
    a = [part, "-fixtures", FIXTURES, "-dir", work.dir, "-trace", trace, "-seed", seed] + args
    if race_log:
        a += ["-racelog", race_log]
    last = ""
    for _ in range(attempts):
        out, err, rc = c1617.run(binary, a, race_log=race_log, timeout=3000)
        if rc == 0:
            break
        last = (out + err)[-4000:]
        if "concurrent map" not in last:
            raise Infra("c17drv %s failed (rc=%d):\n%s" % (part, rc, last))
        log("c17drv %s crashed with a concurrent map access; re-running" % part)
    else:
        raise Infra("c17drv %s crashed %d times with concurrent map access:\n%s" % (part, attempts, last))
    try:
        stats = json.loads(out.strip().split("\n")[-1])
    except ValueError:
        stats = {}
    if not os.path.exists(trace) or os.path.getsize(trace) == 0:
        raise Infra("c17drv %s wrote no trace" % part)
    return trace, stats


def changed_root(diff):
    """Common root (first two components) of the changed paths of a snap event's diff."""
    roots = set()
    for _, paths in diff:
        for p in paths.split():
            comps = [c for c in p.replace("*", "").replace("(len)", "").split(".") if c]
            roots.add(".".join(c.split("[")[0] for c in comps[:2]))
    if len(roots) == 1:
        return roots.pop()
    return "mixed:" + ",".join(sorted(roots)) if roots else ""


def facts_of(line, b):
    """Trigger fields of a rejected event (inputs and the failed comparison)."""
    reason = ",".join(b["reasons"])
    f = {"reason": reason, "type": line.get("type", ""), "metadata_endpoint": bool(line.get("metadata_endpoint", False))}
    if line["ev"] == "snap":
        f["after"] = line["after"]
        f["changed_root"] = changed_root(line.get("diff", []))
        f["changed_objs"] = ",".join(sorted(b.get("objs", [])))
    elif line["ev"] == "exec":
        f["k"] = line["k"]
        f["obj_kind"] = "prototype" if line["obj"] == "proto" else "variant"
    elif line["ev"] == "race":
        f["writers"] = line.get("writers", "")
    return f


def types_of(lines):
    meta = {}
    for e in lines:
        if e["ev"] == "type":
            meta[e["type"]] = e
    return meta


def reproduce(work, binary, race_bin, part, types, seed, p, scheds, wanted, times=3):
    """Re-executes the offending types in isolation. Sequential rejections must come back every time;
    a race report must come back in at least one of the re-runs."""
    hits = 0
    last = None
    for n in range(times):
        if part == "seq":
            trace, _ = drv(binary, "seq", work, "repro_seq%d" % n,
                           ["-schedules", scheds, "-per-type", p["per_type"], "-types", ",".join(types)], seed)
        else:
            trace, _ = drv(race_bin, "conc", work, "repro_conc%d" % n, ["-iter", p["iter"], "-types", ",".join(types)],
                           seed, race_log=work.path("race_repro%d" % n))
        v = judge(work, trace, "repro_%s%d" % (part, n))
        lines = read_ndjson(trace)
        got = {(lines[b["line"] - 1].get("type", ""), r) for b in v["bad"] for r in b["reasons"]}
        if wanted & got:
            hits += 1
            last = (trace, v, lines)
        elif part == "seq":
            return False, None
    if part == "seq":
        return hits == times, last
    return hits > 0, last


def binding_selftest(work, seq_lines):
    """Corrupts recorded observations: a changed fingerprint, a changed behaviour, an added race event.
    Each must be rejected, and nothing else."""
    lines = copy.deepcopy(seq_lines)
    expected = 0
    done = {"snap": 0, "exec": 0}
    out = []
    used = set()
    for e in lines:
        if e["ev"] == "snap" and e["after"] == "create" and len(e["objs"]) > 1 and done["snap"] < 5 \
                and e["type"] not in used and e["type"] not in ("jwt_meta", "oauth2_introspection_meta"):
            used.add(e["type"])
            e["objs"][0][1] = "corrupted-fingerprint-%d" % done["snap"]
            done["snap"] += 1
            expected += 2  # the corrupted snapshot and the next one of that object (it "changes back")
        elif e["ev"] == "exec" and e["k"] != 0 and done["exec"] < 5:
            e["b"] = e["b"] + " "
            done["exec"] += 1
            expected += 1
        out.append(e)
    out.append({"ev": "race", "type": "selftest", "metadata_endpoint": False, "reports": 1, "writers": "x", "frames": "x",
                "report": "x"})
    expected += 1
    if done["snap"] == 0 or done["exec"] == 0:
        raise Infra("binding self-test: nothing to corrupt")
    tf = work.path("selftest.ndjson")
    write_ndjson(tf, out)
    base = judge(work, work.path("seq.ndjson"), "self_base")
    v = judge(work, tf, "self")
    extra = len(v["bad"]) - len(base["bad"])
    if extra != expected:
        raise Infra("binding self-test failed: %d corruptions, %d additional rejections" % (expected, extra))
    return {"corrupted": expected, "rejected": extra}


def run(tier, seed, replay=None):
    verdict = Verdict(PROP, tier, seed)
    work = Work(PROP)
    try:
        p = PARAMS[tier]
        if replay:
            return do_replay(work, replay, seed)
        with ThreadPoolExecutor(max_workers=4) as ex:
            fb = ex.submit(c1617.build, "c17drv", DIRS, False)
            fr = ex.submit(c1617.build, "c17drv", DIRS, True)
            fd = ex.submit(design_run, work, verdict)
            scheds, nsched = generate(work)
            binary = fb.result()
            t_seq, s_seq = drv(binary, "seq", work, "seq", ["-schedules", scheds, "-per-type", p["per_type"]], seed)
            fv = ex.submit(judge, work, t_seq, "seq")
            race_bin = fr.result()
            t_conc, s_conc = drv(race_bin, "conc", work, "conc", ["-iter", p["iter"]], seed, race_log=work.path("race"))
            v = {"seq": fv.result(), "conc": judge(work, t_conc, "conc")}
            fd.result()

        lines = {"seq": read_ndjson(t_seq), "conc": read_ndjson(t_conc)}
        for k in lines:
            if v[k]["lines"] != len(lines[k]) or not lines[k]:
                raise Infra("trace length mismatch in %s: TLC consumed %d of %d" % (k, v[k]["lines"], len(lines[k])))
            if v[k]["div"]:
                raise Infra("driver inconsistency in %s: %s" % (k, json.dumps(v[k]["div"][:5])))

        known = load_known(PROP)
        unreproduced = []
        reported = set()
        for part in ("seq", "conc"):
            by_type = {}
            for b in v[part]["bad"]:
                line = lines[part][b["line"] - 1]
                by_type.setdefault(line.get("type", ""), []).append((b, line))
            for typ, items in sorted(by_type.items()):
                wanted = {(typ, r) for b, _ in items for r in b["reasons"]}
                log("%s: %s rejected (%s); re-executing the type in isolation"
                    % (part, typ, ",".join(sorted(r for _, r in wanted))))
                ok, last = reproduce(work, binary, race_bin, part, [typ], seed, p, scheds, wanted)
                if not ok:
                    unreproduced.append({"part": part, "type": typ, "reasons": sorted(r for _, r in wanted)})
                    continue
                rtrace, rv, rlines = last
                for b in rv["bad"]:
                    line = rlines[b["line"] - 1]
                    facts = facts_of(line, b)
                    k = match_known(known, facts)
                    if k:
                        verdict.known_finding(k)
                        continue
                    key = json.dumps({x: facts[x] for x in facts if x not in ("changed_objs",)}, sort_keys=True)
                    if key in reported:
                        continue
                    reported.add(key)
                    meta = {"ev": "meta", "kind": part, "seed": seed, "types": [typ], "reasons": b["reasons"]}
                    ctx = [e for e in rlines if e["ev"] == "type" and e["type"] == typ][:1]
                    path = save_replay(PROP, "%s-%s-%s" % (part, typ, b["reasons"][0]), [meta] + ctx + [line]) \
                        if len(verdict.violations) < 20 else "(not saved)"
                    verdict.violation(path, json.dumps(facts))

        selftest = binding_selftest(work, lines["seq"])

        tmeta = types_of(lines["seq"])
        execs = [e for e in lines["seq"] if e["ev"] == "exec"]
        snaps = [e for e in lines["seq"] if e["ev"] == "snap"]
        distinct = len({(e["type"], e["k"], e["obj"] == "proto") for e in execs})
        verdict.coverage.update({
            "traces_validated_against_impl": len(execs) + len(snaps) + sum(1 for e in lines["conc"] if e["ev"] == "snap"),
            "evaluations": len(execs) + s_conc.get("execs", 0),
            "distinct_nontrivial": len({(e["type"], e["k"]) for e in execs if e["k"] != 0}),
            "rule": "a case = (mechanism type, override number, prototype or variant) probed somewhere in a schedule; "
                    "non-trivial = a variant with a non-empty override (its behaviour must differ from the catalogue's "
                    "exactly by the override) - counted once per (type, override); every execution and every snapshot "
                    "is judged",
            "generated_by_tlc": {"schedules": nsched},
            "mechanism_types": sorted("%s:%s" % (t["kind"], t["mech"]) for t in tmeta.values()),
            "catalogue_entries": len(tmeta),
            "overrides_per_type": {t: len(m["ovr"]) for t, m in sorted(tmeta.items())},
            "sequential": dict(s_seq, executions_judged=len(execs), snapshots_judged=len(snaps),
                               distinct_type_override_object=distinct, rejected=len(v["seq"]["bad"])),
            "concurrent": dict(s_conc, goroutines=8, rejected=len(v["conc"]["bad"])),
            "unreproduced_rejections": unreproduced,
            "binding_selftest": selftest,
            "samples": [e for e in execs if e["k"] != 0][:2] + snaps[1:2],
        })
        verdict.assumptions += [
            "compiled CEL programs, text/template trees, regular expressions, crypto keys and certificates are "
            "opaque below their root (identity and type only); their source text is included where heimdall keeps it",
            "overrides of map-valued options name every key of the catalogue's map, so that replacing and merging "
            "readings of the overlay coincide",
            "behaviour is what the probe of the type observes (subject, error kind, requests at the test server, "
            "headers and cookies for the upstream, outputs, cache TTLs rounded to 10 s, fallback / continue flags)",
        ]
        if unreproduced:
            log("unreproduced rejections (ignored): %s" % json.dumps(unreproduced)[:600])
        return verdict.finish()
    finally:
        work.close()


def do_replay(work, replay, seed):
    lines = read_ndjson(os.path.abspath(replay))
    meta = lines[0] if lines and lines[0].get("ev") == "meta" else {}
    part = meta.get("kind", "seq")
    seed = meta.get("seed", seed)
    types = meta.get("types") or sorted({e["type"] for e in lines if "type" in e})
    wanted = {(t, r) for t in types for r in meta.get("reasons", [])}
    p = PARAMS["quick"]
    scheds, _ = generate(work)
    binary = c1617.build("c17drv", DIRS, False)
    race_bin = c1617.build("c17drv", DIRS, True) if part == "conc" else None
    ok, last = reproduce(work, binary, race_bin, part, types, seed, p, scheds, wanted)
    n = 0
    if ok:
        _, rv, rlines = last
        known = load_known(PROP)
        for b in rv["bad"]:
            if match_known(known, facts_of(rlines[b["line"] - 1], b)):
                continue
            n += 1
            print("VIOLATION property=%s replay=%s  # %s" % (PROP, replay, json.dumps(facts_of(rlines[b["line"] - 1], b))))
    print("replayed %s part for %s, %d rejected" % (part, ",".join(types), n))
    return 1 if n else 0
