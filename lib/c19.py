"""C19 - no reloadable or remote input can crash the process.

spec/Reload.tla is a deliberately thin lifecycle automaton (entry-point inventory, class table, accept / reject /
keep-state contract); the weight is the generated inputs: harness/c19 (+ cmd/c19drv) obtains the callables the
background goroutines call and feeds them truncations at every offset, type confusions and special files inside
recover(); harness/overlay/c19_kubernetes_test.go does the same for the informer callbacks. Every recorded event is
judged by TLC with spec/ReloadTrace.tla. Evidence level: exploration.
"""
import copy
import json
import os
import re
import subprocess
import time
from concurrent.futures import ThreadPoolExecutor

import verif
from verif import (Infra, Verdict, Work, build_driver, load_known, log, match_known, read_ndjson, run_driver,
                   save_replay, tlc, tlc_expect_ok, tlc_expect_violation, write_ndjson)

PROP = "C19"
FIXTURES = os.path.join(verif.ROOT, "fixtures")
K8S_PKG = "internal/rules/provider/kubernetes"
K8S_TEST = "c19_kubernetes_test.go"

RULE = ("input = one generated content fed to one entry point (jwt signer / http_message_signatures / TLS key store "
        "ChangeListener.OnChanged captured from the real constructors, trust-store loader, config.ParseRules + "
        "rule.SetProcessor.OnCreated and OnUpdated of the assembled service, the change handlers of the file_system and "
        "http_endpoint providers (ruleSetsChanged, watchChanges) in front of a recording processor, kubernetes informer "
        "callbacks, remote "
        "JWKS / introspection / authorization / contextualizer responses and raw bytes over TCP through the assembled "
        "decision service); families: truncation of valid fixtures at every byte offset, single-node type confusion, "
        "special files (empty, whitespace, zero PEM blocks, certificates only, unsupported blocks and keys), huge "
        "numbers, wrong top-level JSON types, status / content-type variants, crafted request lines, headers and "
        "bodies; thorough adds seeded byte-level mutations; non-trivial = class other than 'valid'; distinct = by "
        "input id (entry / family / fixture / offset or path) and call variant")


def panic_sig(detail):
    d = detail or ""
    if "index out of range [0] with length 0" in d:
        return "index-out-of-range-empty-list"
    if "unsupported RSA key size" in d or "unsupported ECDSA key size" in d:
        return "unsupported-key-size"
    if "nil pointer dereference" in d:
        return "nil-dereference"
    if "interface conversion" in d:
        return "unchecked-type-assertion"
    if "unexpected type for config" in d:
        return "unexpected-config-type"
    if "index out of range" in d or "slice bounds out of range" in d:
        return "index-out-of-range"
    return "other" if d else ""


def design_run(work, verdict):
    with ThreadPoolExecutor(max_workers=3) as ex:
        main = ex.submit(tlc_expect_ok, work, "ReloadMC", "ReloadMC.cfg", workers=2, timeout=600)
        m1 = ex.submit(tlc_expect_violation, work, "ReloadMC", "ReloadMC_reject_clears_state.cfg", "InvRejectKeeps",
                       workers=1, timeout=600)
        m2 = ex.submit(tlc_expect_violation, work, "ReloadMC", "ReloadMC_feed_may_crash.cfg", "InvAlive",
                       workers=1, timeout=600)
        r = main.result()
        refuted = {"reject_clears_state": m1.result().violated, "feed_may_crash": m2.result().violated}
    verdict.coverage["states"] = r.distinct
    verdict.coverage["transitions"] = r.generated
    verdict.coverage["design_run"] = {
        "module": "ReloadMC", "distinct_states": r.distinct, "generated": r.generated,
        "invariants": ["InvAlive", "InvRejectKeeps", "InvJudged", "InvTable"],
        "negative_controls_refuted": refuted, "wall_s": round(r.wall, 1),
    }


def run_k8s(work, tag):
    """Informer callbacks of the kubernetes provider (overlay test)."""
    tf = work.path("trace_k8s_%s.ndjson" % tag)
    ov = work.path("overlay_c19.json")
    src = os.path.join(verif.HARNESS, "overlay", K8S_TEST)
    if not os.path.exists(src):
        raise Infra("overlay source missing: " + src)
    with open(ov, "w") as f:
        json.dump({"Replace": {os.path.join(verif.REPO, K8S_PKG, K8S_TEST): src}}, f)
    cmd = ["go", "test", "-tags", "verif", "-vet=off", "-count=1", "-overlay", ov, "-run", "^TestVerifC19$",
           "-timeout", "300s", "./" + K8S_PKG]
    e = verif.goenv()
    e.update({"VERIF_WORK": verif.WORKROOT, "VERIF_C19_TRACE": tf})
    p = subprocess.run(cmd, cwd=verif.REPO, env=e, capture_output=True, text=True, timeout=900)
    if p.returncode != 0 or not os.path.exists(tf):
        raise Infra("C19 kubernetes driver failed (rc=%d):\n%s" % (p.returncode, (p.stdout + p.stderr)[-4000:]))
    return read_ndjson(tf)


PROVIDERS = {
    "fs": ("internal/rules/provider/filesystem", "c19_filesystem_test.go"),
    "http": ("internal/rules/provider/httpendpoint", "c19_httpendpoint_test.go"),
}


def run_provider(work, which, tier, tag, only=None):
    """Change handlers of the file_system / http_endpoint providers (overlay tests): truncations at every
    offset, well-formed documents that are no rule sets and type confusions reach the provider's own handler."""
    pkg, test = PROVIDERS[which]
    tf = work.path("trace_prov_%s_%s.ndjson" % (which, tag))
    ov = work.path("overlay_c19_%s_%s.json" % (which, tag))
    rep = {os.path.join(verif.REPO, "internal/x/verifc19/common.go"): os.path.join(verif.HARNESS, "overlay", "c19_common.go"),
           os.path.join(verif.REPO, pkg, test): os.path.join(verif.HARNESS, "overlay", test)}
    for src in rep.values():
        if not os.path.exists(src):
            raise Infra("overlay source missing: " + src)
    with open(ov, "w") as f:
        json.dump({"Replace": rep}, f)
    cmd = ["go", "test", "-tags", "verif", "-vet=off", "-count=1", "-overlay", ov, "-run", "^TestVerifC19Provider$",
           "-timeout", "600s", "./" + pkg]
    e = verif.goenv()
    e.update({"VERIF_WORK": verif.WORKROOT, "VERIF_C19_TRACE": tf, "VERIF_C19_TIER": tier})
    if only is not None:
        mine = [i.replace("ruleset-%s/" % which, "provider/", 1) for i in only if i.startswith("ruleset-%s/" % which)]
        if not mine:
            return []
        e["VERIF_C19_ONLY"] = "\n".join(mine)
    p = subprocess.run(cmd, cwd=verif.REPO, env=e, capture_output=True, text=True, timeout=1200)
    if p.returncode != 0 or not os.path.exists(tf):
        raise Infra("C19 %s provider driver failed (rc=%d):\n%s" % (which, p.returncode, (p.stdout + p.stderr)[-4000:]))
    return read_ndjson(tf)


def run_rediscreds(work, tier, tag, only=None):
    """Credentials file of the redis cache back ends (overlay test in internal/cache/redis): the listener the
    cache registers with the watcher is called with valid, mixed valid / refused, type-confused and half-written
    files; what the client would authenticate with afterwards is the state."""
    pkg, test = "internal/cache/redis", "c19_rediscreds_test.go"
    tf = work.path("trace_rediscreds_%s.ndjson" % tag)
    ov = work.path("overlay_c19_rediscreds_%s.json" % tag)
    src = os.path.join(verif.HARNESS, "overlay", test)
    if not os.path.exists(src):
        raise Infra("overlay source missing: " + src)
    with open(ov, "w") as f:
        json.dump({"Replace": {os.path.join(verif.REPO, pkg, test): src}}, f)
    cmd = ["go", "test", "-tags", "verif", "-vet=off", "-count=1", "-overlay", ov, "-run", "^TestVerifC19RedisCredentials$",
           "-timeout", "600s", "./" + pkg]
    e = verif.goenv()
    e.update({"VERIF_WORK": verif.WORKROOT, "VERIF_C19_TRACE": tf, "VERIF_C19_TIER": tier})
    if only is not None:
        mine = [i for i in only if i.startswith("redis-credentials/")]
        if not mine:
            return []
        e["VERIF_C19_ONLY"] = "\n".join(mine)
    p = subprocess.run(cmd, cwd=verif.REPO, env=e, capture_output=True, text=True, timeout=1200)
    if p.returncode != 0 or not os.path.exists(tf):
        raise Infra("C19 redis credentials driver failed (rc=%d):\n%s" % (p.returncode, (p.stdout + p.stderr)[-4000:]))
    return read_ndjson(tf)


def run_drv(work, binary, tier, seed, tag, only=None):
    tf = work.path("trace_drv_%s.ndjson" % tag)
    args = ["run", "-trace", tf, "-tier", tier, "-seed", seed, "-fixtures", FIXTURES]
    if only is not None:
        # one input per line: <id> or <id>\t<base64 of the exact bytes> (seeded mutations)
        of = work.path("only_%s.txt" % tag)
        open(of, "w").write("".join("%s\t%s\n" % (i, b) if b else i + "\n" for i, b in sorted(only.items())))
        args += ["-only", of]
    t0 = time.time()
    cursor = work.path("cursor_%s.txt" % tag)
    killers = []     # inputs that terminate the process (twice more, each alone)
    while True:
        # after an input that ends the process the other inputs of its entry point (tls/..., signer/...) are
        # left out: the same defect would end the process again and again
        extra = ["-cursor", cursor] + (["-except", "\n".join(k["id"].split("/", 1)[0] + "/*" for k in killers)]
                                       if killers else [])
        try:
            out = run_driver(binary, args + extra, timeout=3000, env={"VERIF_WORK": work.dir})
            break
        except Infra as e:
            msg = str(e)
            died = "fatal error:" in msg or "panic:" in msg or "goroutine " in msg
            if not died or not os.path.exists(cursor) or len(killers) >= 12:
                raise
            kid = open(cursor).read().strip()
            if not kid or any(k["id"] == kid for k in killers):
                raise
            log("the driver process was terminated while feeding %s; feeding it alone, twice" % kid)
            again = 0
            for n in range(2):
                of = work.path("killer_%s_%d.txt" % (tag, n))
                open(of, "w").write(kid + "\n")
                try:
                    run_driver(binary, ["run", "-trace", work.path("killer_%s_%d.ndjson" % (tag, n)), "-tier", tier, "-seed", seed,
                                        "-fixtures", FIXTURES, "-only", of], timeout=600, env={"VERIF_WORK": work.dir})
                except Infra as e2:
                    if "fatal error:" in str(e2) or "panic:" in str(e2) or "goroutine " in str(e2):
                        again += 1
            if again < 2:
                raise Infra("driver died once while feeding %s but not when fed alone:\n%s" % (kid, msg[-2000:]))
            m = re.search(r"(fatal error: [^\n]*|panic: [^\n]*)", msg)
            killers.append({"ev": "feed", "id": kid, "entry": kid.split("/")[0], "class": "process-killer", "outcome": "panicked",
                            "stateKept": False, "status": 0, "alive": False,
                            "detail": "the process was terminated: " + (m.group(1) if m else "see the driver's output"),
                            "via": "c19drv process (3 of 3 executions ended abnormally)"})
    log("%s (%.1fs)" % (out.strip(), time.time() - t0))
    return read_ndjson(tf) + killers


def execute(work, binary, tier, seed, tag, only=None):
    with ThreadPoolExecutor(max_workers=5) as ex:
        rc = ex.submit(run_rediscreds, work, tier, tag, only)
        k = ex.submit(run_k8s, work, tag)
        pf = ex.submit(run_provider, work, "fs", tier, tag, only)
        ph = ex.submit(run_provider, work, "http", tier, tag, only)
        d = run_drv(work, binary, tier, seed, tag, only)
        lines = d + k.result() + pf.result() + ph.result() + rc.result()
    if only is not None:
        lines = [x for x in lines if x["id"] in only]
    return lines


def judge(work, lines, tag):
    tf, out = work.path("judge_%s.ndjson" % tag), work.path("verdict_%s.json" % tag)
    write_ndjson(tf, lines)
    r = tlc(work, "ReloadTrace", "ReloadTrace.cfg", env={"VERIF_TRACE": tf, "VERIF_OUT": out}, workers=1,
            timeout=1800, heap="8g")
    if not r.ok or not os.path.exists(out):
        raise Infra("ReloadTrace failed (%s):\n%s" % (tag, r.out[-3000:]))
    v = json.load(open(out))
    if v["lines"] != len(lines):
        raise Infra("trace length mismatch: TLC consumed %d of %d" % (v["lines"], len(lines)))
    return v


def node_of(ev):
    """For single-node type confusions: the key of the replaced node (by construction of the input)."""
    m = re.match(r"^[^/]+/confuse/([^/]+)/[^/]+$", ev["id"])
    if not m:
        return ""
    keys = [k for k in m.group(1).split(".") if not k.isdigit()]
    return keys[-1] if keys else ""


def facts_of(ev, reason):
    return {"entry": ev["entry"], "class": ev["class"], "reason": reason, "sig": panic_sig(ev.get("detail", ""))
            if ev.get("outcome") == "panicked" else "", "via": ev.get("via", ""), "outcome": ev.get("outcome", ""),
            "node": node_of(ev)}


def rejections(lines, v):
    """(event, reason) pairs TLC rejected."""
    out = []
    for b in v["bad"]:
        ev = lines[b["line"] - 1]
        if ev["id"] != b["id"]:
            raise Infra("verdict does not line up with the trace at line %d" % b["line"])
        for r in b["reasons"]:
            out.append((ev, r))
    return out


def rej_key(ev, reason):
    return (ev["id"], ev.get("via", ""), reason)


def reproduce(work, binary, tier, seed, rej, stats, times=2):
    keep = {rej_key(ev, r): (ev, r) for ev, r in rej}
    for i in range(times):
        if not keep:
            break
        ids = {ev["id"]: ev.get("input", "") for ev, _r in keep.values()}
        lines = execute(work, binary, tier, seed, "repro%d" % i, only=ids)
        if i == 0:
            stats["not_reexecuted"] = len(set(ids) - {x["id"] for x in lines})
        v = judge(work, lines, "repro%d" % i)
        again = {rej_key(ev, r) for ev, r in rejections(lines, v)}
        keep = {k: x for k, x in keep.items() if k in again}
    return list(keep.values())


def binding_selftest(work, lines, v):
    """Corrupts recorded observations of events TLC accepted and checks that exactly those are rejected."""
    badlines = {b["line"] for b in v["bad"]}
    mutated, n = [], {"panicked": 0, "state-lost": 0, "dead": 0}
    for i, ev in enumerate(lines):
        if i + 1 in badlines:
            continue
        m = copy.deepcopy(ev)
        if ev["ev"] == "feed" and ev["outcome"] == "accepted" and n["panicked"] < 15:
            m["outcome"] = "panicked"
            n["panicked"] += 1
        elif ev["ev"] == "feed" and ev["outcome"] == "rejected" and ev["stateKept"] and n["state-lost"] < 15:
            m["stateKept"] = False
            n["state-lost"] += 1
        elif ev["ev"] == "request" and ev["alive"] and n["dead"] < 15:
            m["alive"] = False
            n["dead"] += 1
        else:
            continue
        mutated.append(m)
    if not mutated:
        raise Infra("binding self-test: nothing to corrupt")
    sv = judge(work, mutated, "selftest")
    if len(sv["bad"]) != len(mutated):
        raise Infra("binding self-test failed: %d corrupted events, %d rejected" % (len(mutated), len(sv["bad"])))
    return {"corrupted": len(mutated), "rejected": len(sv["bad"]), "by_kind": n}


def run(tier, seed, replay=None):
    verdict = Verdict(PROP, tier, seed)
    verdict.level = "exploration"
    work = Work(PROP)
    try:
        binary = build_driver(cmd="c19drv")
        if replay:
            return do_replay(work, binary, tier, seed, replay)
        import watcher
        with ThreadPoolExecutor(max_workers=2) as ex:
            d = ex.submit(design_run, work, verdict)
            wpart = ex.submit(watcher.run_part, work, verdict, tier, seed)   # the secrets watcher (Watcher.tla)
            lines = execute(work, binary, tier, seed, "main")
            d.result()
            wrec = wpart.result()
        if not lines:
            raise Infra("the drivers produced no events")
        v = judge(work, lines, "main")
        rej = rejections(lines, v)
        known = load_known(PROP)
        confirmed = []
        if rej:
            log("%d rejections on %d inputs; re-executing them in isolation" % (len(rej), len({e["id"] for e, _ in rej})))
            confirmed = reproduce(work, binary, tier, seed, rej, verdict.coverage)
        if os.environ.get("VERIF_C19_DUMP"):
            write_ndjson(os.environ["VERIF_C19_DUMP"], [{"ev": ev, "facts": facts_of(ev, r)} for ev, r in confirmed])
        for ev, reason in confirmed:
            f = facts_of(ev, reason)
            k = match_known(known, f)
            if k:
                verdict.known_finding(k)
            else:
                name = re.sub(r"[^A-Za-z0-9]+", "-", ev["id"])[:60]
                path = save_replay(PROP, name, [ev]) if len(verdict.violations) < 20 else "(not saved)"
                verdict.violation(path, "%s %s" % (reason, json.dumps(f, sort_keys=True)))

        for reason, facts, wl in wrec:
            k = match_known(known, facts)
            if k:
                verdict.known_finding(k)
            else:
                path = save_replay(PROP, "watcher-%s" % reason, wl)
                verdict.violation(path, "%s %s" % (reason, json.dumps(facts, sort_keys=True)))

        selftest = binding_selftest(work, lines, v)
        per_entry = {}
        for ev in lines:
            e = per_entry.setdefault(ev["entry"], {"events": 0, "accepted": 0, "rejected": 0, "panicked": 0,
                                                   "responses": 0, "closed_or_waiting": 0})
            e["events"] += 1
            if ev["ev"] == "feed":
                if ev["outcome"] in e:
                    e[ev["outcome"]] += 1
            elif ev["outcome"] == "response":
                e["responses"] += 1
            else:
                e["closed_or_waiting"] += 1
        distinct_nt = len({(ev["id"], ev.get("via", "")) for ev in lines if ev["class"] != "valid"})
        verdict.coverage.update({
            "traces_validated_against_impl": len(lines),
            "evaluations": len(lines),
            "distinct_nontrivial": distinct_nt,
            "rule": RULE,
            "per_entry": per_entry,
            "tlc_stats": v["stats"],
            "rejected_by_tlc": len(rej),
            "reproduced": len(confirmed),
            "binding_selftest": selftest,
            "samples": [lines[i] for i in range(0, len(lines), max(1, len(lines) // 6))][:6],
        })
        verdict.assumptions += [
            "exploration, not proof: absence of crashes is established for the generated inputs only",
            "reload callables are invoked synchronously on the driver's goroutine inside recover(); the callable is the "
            "one the watcher / informer goroutine invokes (captured through a harness watcher.Watcher, the exported "
            "rule.SetProcessor, or the provider's own handlers), so a recovered panic here is a process crash there",
            "the accept / reject outcome of OnChanged is read from the level of its log record (info / warn)",
            "the race in filesystem.loadRuleSet (file vanishing between parse and stat) is not driven",
        ]
        return verdict.finish()
    finally:
        work.close()


def do_replay(work, binary, tier, seed, replay):
    evs = read_ndjson(os.path.abspath(replay))
    if evs and "tr" in evs[0]:
        # a recorded round of the secrets watcher: judged again as it was recorded
        import watcher
        v = watcher.judge(work, evs, "replay")
        for b in v["bad"]:
            print("VIOLATION property=%s replay=%s  # %s" % (PROP, replay, ",".join(b["reasons"])))
        print("replayed %d watcher events, %d rejected" % (len(evs), len(v["bad"])))
        return 1 if v["bad"] else 0
    ids = {e["id"]: e.get("input", "") for e in evs}
    lines = execute(work, binary, tier, seed, "replay", only=ids)
    v = judge(work, lines, "replay")
    known = load_known(PROP)
    nbad = 0
    for ev, reason in rejections(lines, v):
        f = facts_of(ev, reason)
        k = match_known(known, f)
        if k:
            print("KNOWN-FINDING: property=%s %s" % (PROP, k["what"]))
        else:
            nbad += 1
            print("VIOLATION property=%s replay=%s  # %s %s" % (PROP, replay, reason, json.dumps(f, sort_keys=True)))
    print("replayed %d events, %d rejected" % (len(lines), len(v["bad"])))
    return 1 if nbad else 0
