"""C16 - issued JWTs verify against the published key set and carry the system claims.

Specification: spec/Signer.tla (+ SignerOps, SignerMC, SignerGen, SignerTrace).
Driver: harness/c16 + harness/cmd/c16drv.

Parts of one run
  design   exhaustive TLC run of SignerMC (1 reloader x 2 reloads || 2 signers || 1 JWKS reader) with
           PairConsistent, JwksUntorn, RejectedReloadKeeps, LockDiscipline, ClaimsRule, termination;
           seven negative controls that TLC must refute
  gen      SignerGen: key stores x claim templates (constant level) and seeded behaviours (-simulate)
  seq      every generated key store / template on the real proxy service + real JWKS endpoint
  sched    TLC schedules: replayed step by step when the verif hooks are in the tree
           (/verif/hooks/c16_signer.patch), otherwise launched in schedule order and run freely
  stress   key-store file rewritten through the real fsnotify watcher under request / JWKS load
  hammer   Sign / Keys / OnChanged of the real signer object called in tight loops
  race     stress + hammer on the -race build; a report touching the signer is a violation of
           LockDiscipline
Every trace is judged by TLC with SignerTrace.
"""
import copy
import json
import os
import re
from concurrent.futures import ThreadPoolExecutor

import c1617
from verif import (REPO, Infra, Verdict, Work, load_known, log, match_known, read_ndjson, save_replay,
                   tlc, tlc_expect_ok, tlc_expect_violation, write_ndjson)

PROP = "C16"
DIRS = ["app", "client", "trace", "c16"]
FIXTURES = os.path.join(os.path.dirname(os.path.dirname(os.path.abspath(__file__))), "fixtures")

NEG_CONTROLS = [
    ("two_locks", "PairConsistent"),
    ("no_read_lock", "PairConsistent"),
    ("pub_outside_lock", "JwksUntorn"),
    ("pub_outside_lock_race", "LockDiscipline"),
    ("reject_clears", "RejectedReloadKeeps"),
    ("system_claims_first", "ClaimsRule"),
    ("two_clock_reads", "ClaimsRule"),
]

PARAMS = {
    "quick": dict(stores=0, schedules=200, stress=["-runs", 3, "-reloads", 25, "-max-responses", 1500],
                  hammer=["-reloads", 1000, "-max-responses", 24000],
                  race_stress=["-runs", 2, "-reloads", 10, "-max-responses", 500],
                  race_hammer=["-reloads", 300, "-max-responses", 4000, "-workers", 6]),
    "thorough": dict(stores=0, schedules=5000, stress=["-runs", 24, "-reloads", 60, "-max-responses", 4000],
                     hammer=["-reloads", 20000, "-max-responses", 200000],
                     race_stress=["-runs", 8, "-reloads", 40, "-max-responses", 3000],
                     race_hammer=["-reloads", 5000, "-max-responses", 20000, "-workers", 8]),
}

RACE_RELEVANT = re.compile(r"jwtSigner|jwt_signer\.go|jwt_finalizer\.go|jwtFinalizer|keyholder|keystore|"
                           r"management\.\(\*handler\)")


def hooks_present():
    """The schedule-replay hooks (hooks/c16_signer.patch) are in the tree under test."""
    signer = os.path.join(REPO, "internal/rules/mechanisms/finalizers/jwt_signer.go")
    pkg = os.path.join(REPO, "internal/x/veriftrace")
    try:
        src = open(signer).read()
    except OSError:
        return False
    return os.path.isdir(pkg) and all('veriftrace.Point("%s"' % p in src for p in
                                      ("signer.load.parsed", "signer.load.swapped", "signer.load.done",
                                       "signer.sign.read"))


def design_run(work, verdict):
    with ThreadPoolExecutor(max_workers=4) as ex:
        main = ex.submit(tlc_expect_ok, work, "SignerMC", "SignerMC.cfg", workers=4, timeout=900)
        negs = {m: ex.submit(tlc_expect_violation, work, "SignerMC", "SignerMC_%s.cfg" % m, inv, workers=1,
                             timeout=600) for m, inv in NEG_CONTROLS}
        r = main.result()
        refuted = {m: f.result().violated for m, f in negs.items()}
    verdict.coverage["states"] = r.distinct
    verdict.coverage["transitions"] = r.generated
    verdict.coverage["design_run"] = {
        "module": "SignerMC", "configuration": "1 reloader x 2 reloads || 2 signers || 1 JWKS reader; rewritten "
        "contents: new kid + new key, same kid + new key, invalid file",
        "distinct_states": r.distinct, "generated": r.generated,
        "invariants": ["TypeOK", "PairConsistent", "JwksUntorn", "RejectedReloadKeeps", "LockDiscipline", "ClaimsRule"],
        "properties": ["Terminates", "RejectKeepsStep"], "wall_s": round(r.wall, 1),
        "negative_controls_refuted": refuted,
    }


def generate(work, seed, nsched):
    stores, cases, scheds = work.path("stores.ndjson"), work.path("cases.ndjson"), work.path("scheds.ndjson")
    r = tlc(work, "SignerGen", "SignerGen.cfg", workers=1, seed=seed, timeout=1200,
            extra=["-simulate", "num=%d" % nsched, "-depth", "100"],
            env={"VERIF_GEN_OUT": stores, "VERIF_GEN_CASES": cases})
    if r.rc != 0 or not os.path.exists(cases):
        raise Infra("SignerGen failed (rc=%d):\n%s" % (r.rc, r.out[-3000:]))
    found = re.findall(r'<<"SCHED", "(.*)">>', r.out)
    seen, out = set(), []
    for m in found:
        txt = json.loads('"' + m + '"')
        if txt not in seen:
            seen.add(txt)
            out.append(json.loads(txt))
    if not out:
        raise Infra("SignerGen printed no schedule")
    write_ndjson(scheds, out)
    n = {"stores": sum(1 for _ in open(stores)), "cases": sum(1 for _ in open(cases)),
         "schedules": len(out), "behaviours_simulated": len(found)}
    log("SignerGen: %(stores)d key stores, %(cases)d cases, %(schedules)d distinct schedules" % n)
    return stores, cases, scheds, n


def judge(work, trace, tag):
    out = work.path("verdict_%s.json" % tag)
    r = tlc_expect_ok(work, "SignerTrace", "SignerTrace.cfg", env={"VERIF_TRACE": trace, "VERIF_OUT": out},
                      workers=1, timeout=1800, heap="6g")
    v = json.load(open(out))
    v["tlc_states"] = r.distinct
    return v


def drv(binary, part, work, tag, args, seed, race_log=None):
    trace = work.path("%s.ndjson" % tag)
    out, err, rc = c1617.run(binary, [part, "-fixtures", FIXTURES, "-dir", work.dir, "-trace", trace, "-seed", seed] + args,
                             race_log=race_log, timeout=3000)
    if rc != 0:
        raise Infra("c16drv %s failed (rc=%d):\n%s" % (part, rc, (out + err)[-5000:]))
    try:
        stats = json.loads(out.strip().split("\n")[-1])
    except ValueError:
        stats = {}
    if not os.path.exists(trace) or os.path.getsize(trace) == 0:
        raise Infra("c16drv %s wrote no trace" % part)
    return trace, stats


def case_facts(c, reasons):
    i = c["in"]
    return {"reason": ",".join(sorted(reasons)), "tmpl": i["tmpl"], "cert": i["cert"], "kidmode": i["kidmode"],
            "activetype": i["activetype"], "entries": len(i["keys"]), "enc": i["enc"], "part": "seq"}


def reproduce_seq(work, binary, stores, cases, lines, bad, seed, times=3):
    """Re-executes the key stores of rejected cases in isolation; keeps what is rejected every time."""
    by_id = {c["id"]: c for c in lines}
    cand = {b["id"]: b["reasons"] for b in bad}
    for n in range(times):
        if not cand:
            break
        nums = sorted({by_id[i]["in"]["store"] for i in cand})
        trace, _ = drv(binary, "seq", work, "repro_seq%d" % n,
                       ["-stores", stores, "-cases", cases, "-only-stores", ",".join(map(str, nums)), "-workers", 2], seed)
        v = judge(work, trace, "repro_seq%d" % n)
        again = {b["id"]: b["reasons"] for b in v["bad"]}
        got = {c["id"]: c for c in read_ndjson(trace)}
        cand = {i: again[i] for i in cand if i in again}
        by_id.update({i: got[i] for i in cand})
    return [(by_id[i], r) for i, r in cand.items()]


def reproduce_conc(work, binary, part, args, seed, reasons, times=5):
    """A concurrency rejection counts when the same comparison fails again in a re-run of the same
    configuration (same seed and plan); interleavings are not repeatable exactly without hooks."""
    for n in range(times):
        # a race build must not end the run at its first report (reports are judged from the main run)
        rl = work.path("repro_race") if "-race-" in os.path.basename(binary) else None
        trace, _ = drv(binary, part, work, "repro_%s%d" % (part, n), args, seed, race_log=rl)
        v = judge(work, trace, "repro_%s%d" % (part, n))
        got = {r for b in v["bad"] for r in b["reasons"]}
        if got & reasons:
            return True, trace, v
    return False, None, None


def relevant_races(race_log):
    reports = c1617.race_reports(race_log)
    rel = [r for r in reports if RACE_RELEVANT.search(r)]
    return reports, rel


def corrupt_seq(lines):
    """Binding self-test material: every corruption must be rejected by SignerTrace."""
    out = []
    toks = [c for c in lines if c["obs"]["token"]]
    muts = [
        ("sub", lambda c: c["obs"]["claims"].__setitem__("sub", "\"evil\"")),
        ("iss", lambda c: c["obs"]["claims"].__setitem__("iss", "\"evil\"")),
        ("exp", lambda c: c["obs"]["claims"].__setitem__("exp", c["obs"]["claims"]["exp"] + 1)),
        ("nbf", lambda c: c["obs"]["claims"].__setitem__("nbf", c["obs"]["claims"]["nbf"] - 1)),
        ("iat", lambda c: (c["obs"]["claims"].__setitem__("iat", c["obs"]["t1"] + 5),
                           c["obs"]["claims"].__setitem__("nbf", c["obs"]["t1"] + 5),
                           c["obs"]["claims"].__setitem__("exp", c["obs"]["claims"]["exp"] + 5))),
        ("key", lambda c: c["obs"].__setitem__("key", "p521-b")),
        ("verified", lambda c: c["obs"].__setitem__("verified", False)),
        ("private", lambda c: c["obs"].__setitem__("private", ["0.d"])),
        ("jwks", lambda c: c["obs"].__setitem__("jwks_set", c["obs"]["jwks_set"] + ["p521-b"])),
        ("alg", lambda c: c["obs"].__setitem__("alg", "HS256")),
        ("kidkey", lambda c: c["obs"].__setitem__("jwks_key_of_kid", "")),
    ]
    for k, (name, fn) in enumerate(muts):
        for c in toks[k::len(muts)][:4]:
            m = copy.deepcopy(c)
            fn(m)
            m["id"] = "selftest-%s-%s" % (name, c["id"])
            out.append(m)
    return out


def corrupt_conc(lines):
    """Corruptions of a concurrent trace: a token signed with a key of no version, a torn JWKS
    response, a token of a version whose write is dropped from the trace."""
    out, n = [], 0
    expected = 0
    plan = None
    plans = 0
    for e in lines:
        if e["ev"] == "plan":
            plans += 1
            if plans > 2:  # two runs are enough
                break
        e = copy.deepcopy(e)
        if e["ev"] == "plan":
            plan = e
        elif e["ev"] == "token" and e["key"] and n % 97 == 0:
            e["key"] = "p521-b"
            e["dup"] = False
            expected += 1
        elif e["ev"] == "jwks" and e["set"] and n % 89 == 0:
            e["set"] = e["set"] + ["zz=p521-b"]
            expected += 1
        n += 1
        out.append(e)
    if plan is None or expected == 0:
        raise Infra("binding self-test: nothing to corrupt in the concurrent trace")
    return out, expected


def binding_selftest(work, seq_lines, conc_lines):
    mutated = corrupt_seq(seq_lines)
    if not mutated:
        raise Infra("binding self-test: no sequential case with a token")
    tf = work.path("selftest_seq.ndjson")
    write_ndjson(tf, mutated)
    v = judge(work, tf, "self_seq")
    if len(v["bad"]) != len(mutated):
        missed = sorted({m["id"] for m in mutated} - {b["id"] for b in v["bad"]})
        raise Infra("binding self-test failed: %d corrupted cases, %d rejected; missed %s"
                    % (len(mutated), len(v["bad"]), missed[:5]))
    conc, expected = corrupt_conc(conc_lines)
    tf2 = work.path("selftest_conc.ndjson")
    write_ndjson(tf2, conc)
    v2 = judge(work, tf2, "self_conc")
    if len(v2["bad"]) < expected:
        raise Infra("binding self-test failed: %d corrupted concurrent events, %d rejected" % (expected, len(v2["bad"])))
    return {"corrupted_cases": len(mutated), "rejected_cases": len(v["bad"]),
            "corrupted_events": expected, "rejected_events": len(v2["bad"])}


def run(tier, seed, replay=None):
    verdict = Verdict(PROP, tier, seed)
    work = Work(PROP)
    try:
        hooks = hooks_present()
        tags = "verif c16hooks" if hooks else "verif"
        p = PARAMS[tier]
        if replay:
            return do_replay(work, tags, replay, seed)
        with ThreadPoolExecutor(max_workers=4) as ex:
            fb = ex.submit(c1617.build, "c16drv", DIRS, False, tags)
            fr = ex.submit(c1617.build, "c16drv", DIRS, True, tags)
            fd = ex.submit(design_run, work, verdict)
            stores, cases, scheds, ngen = generate(work, seed, p["schedules"])
            binary = fb.result()

            # the parts on the normal build run one after the other (they are CPU bound)
            t_seq, s_seq = drv(binary, "seq", work, "seq", ["-stores", stores, "-cases", cases, "-max", p["stores"]], seed)
            t_sched, s_sched = drv(binary, "sched", work, "sched", ["-schedules", scheds], seed)
            t_stress, s_stress = drv(binary, "stress", work, "stress", p["stress"], seed)
            t_hammer, s_hammer = drv(binary, "hammer", work, "hammer", p["hammer"], seed)
            if bool(s_sched.get("exact")) != hooks:
                raise Infra("hook detection (%s) and driver build (%s) disagree" % (hooks, s_sched.get("exact")))

            traces = {"seq": t_seq, "sched": t_sched, "stress": t_stress, "hammer": t_hammer}
            verdicts = {k: ex.submit(judge, work, t, k) for k, t in traces.items()}

            # race build: same stress and hammer, smaller
            race_bin = fr.result()
            race_log = work.path("race")
            t_rs, s_rs = drv(race_bin, "stress", work, "race_stress", p["race_stress"], seed, race_log=race_log)
            t_rh, s_rh = drv(race_bin, "hammer", work, "race_hammer", p["race_hammer"], seed, race_log=race_log)
            verdicts["race_stress"] = ex.submit(judge, work, t_rs, "race_stress")
            verdicts["race_hammer"] = ex.submit(judge, work, t_rh, "race_hammer")
            traces.update({"race_stress": t_rs, "race_hammer": t_rh})
            v = {k: f.result() for k, f in verdicts.items()}
            fd.result()

        lines = {k: read_ndjson(t) for k, t in traces.items()}
        for k in traces:
            if v[k]["lines"] != len(lines[k]) or not lines[k]:
                raise Infra("trace length mismatch in %s: TLC consumed %d of %d" % (k, v[k]["lines"], len(lines[k])))

        known = load_known(PROP)

        # ---- sequential rejections: re-execute in isolation
        confirmed = []
        if v["seq"]["bad"]:
            log("%d sequential cases rejected; re-executing their key stores" % len(v["seq"]["bad"]))
            confirmed = reproduce_seq(work, binary, stores, cases, lines["seq"], v["seq"]["bad"], seed)
        for c, reasons in confirmed:
            facts = case_facts(c, reasons)
            k = match_known(known, facts)
            if k:
                verdict.known_finding(k)
            else:
                meta = {"ev": "meta", "kind": "seq", "seed": seed, "id": c["id"]}
                path = save_replay(PROP, "seq-" + c["id"], [meta, c]) if len(verdict.violations) < 20 else "(not saved)"
                verdict.violation(path, json.dumps(facts))

        # ---- concurrent rejections: the same comparison must fail again in a re-run
        unreproduced = []
        conc_args = {"sched": ["-schedules", scheds], "stress": p["stress"], "hammer": p["hammer"],
                     "race_stress": p["race_stress"], "race_hammer": p["race_hammer"]}
        for part in ("sched", "stress", "hammer", "race_stress", "race_hammer"):
            if not v[part]["bad"]:
                continue
            reasons = {r for b in v[part]["bad"] for r in b["reasons"]}
            cmd = part.replace("race_", "")
            bin_ = race_bin if part.startswith("race_") else binary
            log("%s: %d events rejected (%s); re-running" % (part, len(v[part]["bad"]), ",".join(sorted(reasons))))
            ok, rtrace, rv = reproduce_conc(work, bin_, cmd, conc_args[part], seed, reasons)
            if not ok:
                unreproduced.append({"part": part, "reasons": sorted(reasons), "events": v[part]["bad"][:5]})
                continue
            facts = {"reason": ",".join(sorted(reasons)), "part": cmd}
            k = match_known(known, facts)
            if k:
                verdict.known_finding(k)
                continue
            rl = read_ndjson(rtrace)
            badlines = {b["line"] for b in rv["bad"]}
            keep = [e for n, e in enumerate(rl, 1) if n in badlines or e["ev"] == "plan"][:60]
            meta = {"ev": "meta", "kind": cmd, "race": part.startswith("race_"), "seed": seed,
                    "args": [str(a) for a in conc_args[part]], "reasons": sorted(reasons)}
            verdict.violation(save_replay(PROP, "%s-seed%d" % (part, seed), [meta] + keep), json.dumps(facts))

        # ---- race detector
        reports, rel = relevant_races(race_log)
        race_info = {"reports": len(reports), "relevant": len(rel)}
        if rel:
            log("%d race reports touch the signer; re-running" % len(rel))
            rlog2 = work.path("race2")
            again = []
            for n in range(3):
                drv(race_bin, "hammer", work, "race_hammer_r%d" % n, p["race_hammer"], seed + n, race_log=rlog2)
                drv(race_bin, "stress", work, "race_stress_r%d" % n, p["race_stress"], seed + n, race_log=rlog2)
                _, again = relevant_races(rlog2)
                if again:
                    break
            if again:
                frames = sorted({f for r in rel[:5] for f in c1617.race_frames(r)})
                facts = {"reason": "data-race", "part": "race", "frames": ";".join("%s@%s" % f for f in frames)[:400]}
                k = match_known(known, facts)
                if k:
                    verdict.known_finding(k)
                else:
                    meta = {"ev": "meta", "kind": "race", "seed": seed, "reasons": ["data-race"]}
                    path = save_replay(PROP, "race-seed%d" % seed, [meta] + [{"ev": "race", "report": r} for r in rel[:5]])
                    verdict.violation(path, "LockDiscipline: " + json.dumps(facts))
            else:
                unreproduced.append({"part": "race", "reasons": ["data-race"], "events": rel[:1]})
        race_info["unrelated_sample"] = [c1617.race_frames(r)[:4] for r in reports if r not in rel][:3]

        selftest = binding_selftest(work, lines["seq"], lines["stress"])

        seq = lines["seq"]
        tokens = sum(1 for c in seq if c["obs"]["token"])
        if tokens == 0:
            raise Infra("no token was issued in the sequential part (vacuous)")
        distinct = len({json.dumps(c["in"], sort_keys=True) for c in seq})
        conc_events = sum(len(lines[k]) for k in lines if k != "seq")
        conc_judged = sum(1 for k in lines if k != "seq" for e in lines[k] if e["ev"] in ("token", "jwks"))
        fails = sum(1 for k in lines if k != "seq" for e in lines[k] if e["ev"] == "fail")
        verdict.coverage.update({
            "traces_validated_against_impl": len(seq) + conc_judged,
            "evaluations": len(seq) + conc_judged,
            "distinct_nontrivial": min(distinct, v["seq"]["nontrivial"]) + sum(v[k]["nontrivial"] for k in v if k != "seq"),
            "rule": "sequential cases: every key store enumerated by TLC (6 key types x certificate none/chain/"
                    "self-signed x explicit/derived key id x first entry/key_id selection x PKCS#8/traditional PEM, "
                    "plus 2- and 3-entry stores) x 16 claim templates (8 naming reserved claims, 4 not rendering an "
                    "object) with rotating subject ids, TTLs and signer names; distinct = by logged input; "
                    "non-trivial = a token was issued and the template names a reserved claim or the store has several "
                    "entries / certificates / a derived key id. concurrent events: token and JWKS responses; "
                    "non-trivial = the response's window overlaps a reload (more than one version admissible)",
            "generated_by_tlc": ngen,
            "sequential": {"cases": len(seq), "tokens": tokens, "distinct_inputs": distinct,
                           "nontrivial": v["seq"]["nontrivial"], "rejected": len(v["seq"]["bad"]),
                           "reproduced": len(confirmed), "no_token_on_object_template": len(v["seq"]["div"]),
                           "stores": s_seq},
            "schedules": {"mode": "exact replay through hooks" if hooks else "hooks absent: operations launched in "
                          "schedule order, free-running (apply /verif/hooks/c16_signer.patch for exact replay)",
                          "stats": s_sched, "events": len(lines["sched"]), "rejected": len(v["sched"]["bad"]),
                          "divergences": len(v["sched"]["div"])},
            "stress": {"stats": s_stress, "events": len(lines["stress"]), "overlapping_a_reload": v["stress"]["nontrivial"],
                       "rejected": len(v["stress"]["bad"])},
            "hammer": {"stats": s_hammer, "events": len(lines["hammer"]), "overlapping_a_reload": v["hammer"]["nontrivial"],
                       "rejected": len(v["hammer"]["bad"])},
            "race": dict(race_info, stress=s_rs, hammer=s_rh, rejected=len(v["race_stress"]["bad"]) + len(v["race_hammer"]["bad"])),
            "concurrent_events": conc_events, "requests_without_token": fails,
            "unreproduced_rejections": unreproduced,
            "hooks_present": hooks,
            "binding_selftest": selftest,
            "samples": seq[:2] + [e for e in lines["stress"] if e["ev"] == "token"][:2]
            + [e for e in lines["stress"] if e["ev"] == "jwks"][:1],
        })
        verdict.assumptions += [
            "signature verification of go-jose and the Go standard library is trusted",
            "whole-second TTLs only (exp and iat have second resolution)",
            "without the verif hooks the instant of a swap is not observable: a version counts as possibly active from "
            "the moment its file content is written until the next valid version was served by the JWKS endpoint and "
            "no reload goroutine is left",
            "the key-store file is rewritten in place with one pwrite of constant length (no truncation)",
        ]
        if unreproduced:
            log("unreproduced rejections (ignored): %s" % json.dumps(unreproduced)[:600])
        import keystore
        keystore.run_into(verdict, work, binary, tier, seed)
        return verdict.finish()
    finally:
        work.close()


def do_replay(work, tags, replay, seed):
    lines = read_ndjson(os.path.abspath(replay))

    def binary_of(race):
        return c1617.build("c16drv", DIRS, race, tags)

    meta = lines[0] if lines and lines[0].get("ev") == "meta" else {"kind": "seq"}
    kind = meta.get("kind", "seq")
    seed = meta.get("seed", seed)
    rejected = 0
    if kind == "seq":
        stores, cases, _, _ = generate(work, seed, 1)
        nums = sorted({c["in"]["store"] for c in lines if c.get("ev") == "case"})
        ids = {c["id"] for c in lines if c.get("ev") == "case"}
        trace, _ = drv(binary_of(False), "seq", work, "replay", ["-stores", stores, "-cases", cases, "-only-stores",
                                                       ",".join(map(str, nums)), "-workers", 2], seed)
        v = judge(work, trace, "replay")
        for b in v["bad"]:
            if b["id"] in ids:
                rejected += 1
                print("VIOLATION property=%s replay=%s  # %s %s" % (PROP, replay, b["id"], ",".join(b["reasons"])))
        print("replayed %d cases of %d key stores, %d rejected" % (len(ids), len(nums), rejected))
    elif kind == "race":
        race_bin = binary_of(True)
        rlog = work.path("race")
        p = PARAMS["quick"]
        for n in range(3):
            drv(race_bin, "hammer", work, "replay_h%d" % n, p["race_hammer"], seed + n, race_log=rlog)
            drv(race_bin, "stress", work, "replay_s%d" % n, p["race_stress"], seed + n, race_log=rlog)
        _, rel = relevant_races(rlog)
        rejected = len(rel)
        if rel:
            print("VIOLATION property=%s replay=%s  # data race on the signer state (LockDiscipline)" % (PROP, replay))
            print(rel[0][:1500])
        print("replayed race run, %d relevant reports" % rejected)
    else:
        bin_ = binary_of(bool(meta.get("race")))
        args = meta.get("args", [])
        if kind == "sched":
            _, _, scheds, _ = generate(work, seed, PARAMS["quick"]["schedules"])
            args = ["-schedules", scheds]
        ok, _, rv = reproduce_conc(work, bin_, kind, args, seed, set(meta.get("reasons", [])))
        if ok:
            rejected = len(rv["bad"])
            print("VIOLATION property=%s replay=%s  # %s" % (PROP, replay, ",".join(meta.get("reasons", []))))
        print("replayed %s run, %d events rejected" % (kind, rejected))
    return 1 if rejected else 0
