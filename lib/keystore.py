"""keystore - loading a key store, specified and bound (spec/KeyStore.tla).

The listed properties speak of what is done with loaded keys (C16) and of inputs that must not end the
process (C19); how a PEM file becomes entries with key ids and certificate chains is behaviour beyond
their statements. It is specified all the same (KeyStore.tla: FindChain / buildChain / ValidateChain /
generateKeyID step by step, with a model of what crypto/x509 accepts), checked exhaustively over a
small alphabet (KeyStoreMC + negative controls) and bound to internal/keystore by trace validation
(KeyStoreGen -> harness/c16/keystore.go -> KeyStoreTrace). Differences are reported in the evidence as
model divergences, never as violations.

Folded in:  keystore.run_into(verdict, work, binary, tier, seed)   (from the check of C16)
"""
import json
import os
from concurrent.futures import ThreadPoolExecutor

import c1617
from verif import Infra, log, read_ndjson, tlc_expect_ok, tlc_expect_violation

FIXTURES = "/verif/fixtures"
CONTROLS = [("revisit", "InvTerminates"), ("no_validation", "InvChainVerifies"), ("dup_allowed", "InvUniqueKids"),
            ("empty_ok", "InvNoKeysRefused"), ("complete", "CtrComplete")]
INVARIANTS = ["InvAllOrNothing", "InvUniqueKids", "InvGivenKidKept", "InvChainIsOwn", "InvChainLinked",
              "InvChainVerifies", "InvTerminates", "InvJunkRefused", "InvNoKeysRefused"]
# a specification that would accept anything binds nothing: these variants of it must disagree with the code
TRACE_MUTANTS = ["last_cert", "kid_ignores_cert"]


def design(work, tier):
    cfg = "KeyStoreMC.cfg" if tier == "quick" else "KeyStoreMC_thorough.cfg"
    with ThreadPoolExecutor(max_workers=3) as ex:
        main = ex.submit(tlc_expect_ok, work, "KeyStoreMC", cfg, workers=2 if tier == "quick" else 8, timeout=3000,
                         heap="6g")
        muts = {m: ex.submit(tlc_expect_violation, work, "KeyStoreMC", "KeyStoreMC_%s.cfg" % m, inv, workers=1,
                             timeout=600) for m, inv in CONTROLS}
        r = main.result()
        refuted = {m: f.result().violated for m, f in muts.items()}
    return {"module": "KeyStoreMC", "cfg": cfg, "distinct_states": r.distinct, "generated": r.generated,
            "invariants": INVARIANTS, "negative_controls_refuted": refuted, "wall_s": round(r.wall, 1),
            "bounds": "2 keys, 2 names, <= 2 key blocks with / without key id; certificates over every combination of "
                      "subject, issuer, key identifiers, signer, CA flag, validity: " +
                      ("<= 2 per file (the second one valid CA)" if tier == "quick"
                       else "<= 3 per file (the third one valid CA)") + "; files with 2 keys <= 1 certificate",
            "note": "CtrComplete (a file is accepted whenever some choice of certificates verifies) is refuted on "
                    "purpose: FindChain takes the first certificate of the key and the first candidate issuer"}


def judge(work, trace, tag, cfg="KeyStoreTrace.cfg"):
    out = work.path("ks_verdict_%s.json" % tag)
    tlc_expect_ok(work, "KeyStoreTrace", cfg, env={"VERIF_TRACE": trace, "VERIF_OUT": out}, workers=1,
                  timeout=1800, heap="4g")
    return json.load(open(out))


def run_into(verdict, work, binary, tier, seed):
    n = 1500 if tier == "quick" else 40000
    with ThreadPoolExecutor(max_workers=2) as ex:
        d = ex.submit(design, work, tier)
        cases = work.path("ks_cases.ndjson")
        tlc_expect_ok(work, "KeyStoreGen", "KeyStoreGen.cfg", env={"VERIF_GEN_OUT": cases, "VERIF_GEN_N": n},
                      seed=seed, workers=1, timeout=1800, heap="4g")
        trace = work.path("ks_trace.ndjson")
        cov = {"rule": "file = one TLC-generated sequence of PEM blocks (3 keys, 3 names; <= 3 key blocks, <= 5 "
                       "certificates with chosen subject / issuer / key identifiers / signer / CA flag / validity, "
                       "duplicates, unsupported blocks) written with real keys and certificates and loaded by "
                       "keystore.NewKeyStoreFromPEMBytes; judged: accepted or refused and why, entries in order, key "
                       "ids, certificate chains; non-trivial = the file has keys and certificates",
               "files_generated_by_tlc": n}
        out, err, rc = c1617.run(binary, ["keystore", "-fixtures", FIXTURES, "-cases", cases, "-trace", trace],
                                 timeout=1800)
        if rc != 0:
            # the loader ended the process (what C19 is about): nothing to compare
            cov["driver_ended"] = (out + err)[-600:]
            lines = []
        else:
            lines = read_ndjson(trace)
        cov["design_run"] = d.result()
    if lines:
        v = judge(work, trace, "main")
        if v["lines"] != len(lines):
            raise Infra("key-store trace length mismatch: TLC consumed %d of %d" % (v["lines"], len(lines)))
        selftest = {}
        for m in TRACE_MUTANTS:
            mv = judge(work, trace, m, "KeyStoreTrace_%s.cfg" % m)
            if not mv["diverged"]:
                raise Infra("key-store binding self-test: the variant %s of the specification agrees with every "
                            "observation" % m)
            selftest[m] = len(mv["diverged"])
        accepted = sum(1 for c in lines if c["obs"]["ok"])
        cov.update({"files_loaded": len(lines), "accepted": accepted, "nontrivial": v["nontrivial"],
                    "refused": {w: sum(1 for c in lines if c["obs"]["why"] == w)
                                for w in sorted({c["obs"]["why"] for c in lines if not c["obs"]["ok"]})},
                    "chains_of_length": {str(k): sum(1 for c in lines for e in c["obs"]["entries"] if len(e["chain"]) == k)
                                         for k in range(0, 6)},
                    "model_divergences": len(v["diverged"]), "divergence_samples": v["diverged"][:3],
                    "binding_selftest": {"wrong_specifications_contradicted_by_observations": selftest},
                    "samples": lines[:2]})
        if v["diverged"]:
            log("key store: %d files diverge from KeyStore.tla (reported in the evidence, not a violation), e.g. %s"
                % (len(v["diverged"]), json.dumps(v["diverged"][0])[:400]))
        log("key store: %d files loaded, %d accepted, %d divergences" % (len(lines), accepted, len(v["diverged"])))
    verdict.coverage["key_store_loading"] = cov
    verdict.assumptions.append(
        "key_store_loading: behaviour beyond the statement of C16, specified in spec/KeyStore.tla; differences between "
        "the specification and internal/keystore are listed as model divergences and never raise an alarm")
    return cov
