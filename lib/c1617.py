"""Build helper shared by lib/c16.py and lib/c17.py.

* builds harness/cmd/<cmd> with a *private* go.mod (go build -modfile) generated from
  harness/go.mod.tmpl for the repository given by VERIF_REPO, so that neither the shared
  harness/go.mod is modified nor a concurrent check building against another tree can redirect
  this build;
* caches the binaries under /verif/.work/bin/cache keyed by a hash of the repository state (HEAD +
  diff + untracked files), the harness sources, the tags and the race flag: the race build costs
  ~90 s cold, the cache makes the quick tier fit its budget; any change of /repo or of the harness
  changes the key and forces a rebuild;
* parses Go race detector reports.
"""
import hashlib
import os
import re
import shutil
import subprocess
import threading
import time

import verif
from verif import HARNESS, REPO, WORKROOT, Infra, goenv, log

CACHE = os.path.join(WORKROOT, "bin", "cache")
_modlock = threading.Lock()


def _run(cmd, cwd=None):
    return subprocess.run(cmd, cwd=cwd, capture_output=True, text=True)


def repo_state():
    """Hash of the repository's HEAD, tracked modifications and untracked files."""
    h = hashlib.sha256()
    h.update(os.path.realpath(REPO).encode())
    head = _run(["git", "-C", REPO, "rev-parse", "HEAD"])
    if head.returncode != 0:
        # not a git checkout: hash every Go file
        for root, _, files in sorted(os.walk(REPO)):
            for f in sorted(files):
                if f.endswith(".go") or f in ("go.mod", "go.sum"):
                    p = os.path.join(root, f)
                    h.update(p.encode())
                    h.update(open(p, "rb").read())
        return h.hexdigest()
    h.update(head.stdout.encode())
    h.update(_run(["git", "-C", REPO, "diff", "HEAD"]).stdout.encode())
    others = _run(["git", "-C", REPO, "ls-files", "--others", "--exclude-standard"]).stdout.split("\n")
    for f in sorted(x for x in others if x):
        p = os.path.join(REPO, f)
        h.update(f.encode())
        try:
            h.update(open(p, "rb").read())
        except OSError:
            pass
    return h.hexdigest()


def harness_state(dirs):
    h = hashlib.sha256()
    for d in dirs:
        base = os.path.join(HARNESS, d)
        for root, _, files in sorted(os.walk(base)):
            for f in sorted(files):
                if f.endswith(".go"):
                    p = os.path.join(root, f)
                    h.update(p.encode())
                    h.update(open(p, "rb").read())
    return h.hexdigest()


def private_modfile():
    """go.mod / go.sum for REPO under .work/bin/cache/mod-<hash>/ (never the shared harness/go.mod)."""
    with _modlock:
        return _private_modfile()


def _private_modfile():
    tag = hashlib.sha256(os.path.realpath(REPO).encode()).hexdigest()[:12]
    d = os.path.join(CACHE, "mod-" + tag)
    os.makedirs(d, exist_ok=True)
    gomod, gosum = os.path.join(d, "go.mod"), os.path.join(d, "go.sum")
    repo_mod, repo_sum = os.path.join(REPO, "go.mod"), os.path.join(REPO, "go.sum")
    stale = (not os.path.exists(gomod) or not os.path.exists(gosum)
             or os.path.getmtime(gomod) < os.path.getmtime(repo_mod)
             or os.path.getmtime(gosum) < os.path.getmtime(repo_sum))
    if stale:
        txt = open(os.path.join(HARNESS, "go.mod.tmpl")).read().replace("/repo", REPO)
        m = re.search(r"^go (\S+)", open(repo_mod).read(), re.M)
        if m:
            txt = re.sub(r"^go \S+", "go " + m.group(1), txt, flags=re.M)
        tmp = gomod + ".%d.%d" % (os.getpid(), threading.get_ident())
        open(tmp, "w").write(txt)
        os.replace(tmp, gomod)
        shutil.copy(repo_sum, gosum)
    return gomod


def _prune(keep=8):
    try:
        bins = [os.path.join(CACHE, f) for f in os.listdir(CACHE) if os.path.isfile(os.path.join(CACHE, f))]
    except OSError:
        return
    bins.sort(key=os.path.getmtime, reverse=True)
    # only binaries nobody used for hours: checks against several trees may run side by side
    old = time.time() - 4 * 3600
    for p in bins[keep:]:
        try:
            if os.path.getmtime(p) < old:
                os.remove(p)
        except OSError:
            pass
    # go.mod copies made for scratch worktrees that are gone
    for f in os.listdir(CACHE):
        d = os.path.join(CACHE, f)
        if f.startswith("mod-") and os.path.isdir(d):
            try:
                txt = open(os.path.join(d, "go.mod")).read()
                m = re.search(r"=> (\S+)", txt)
                if m and not os.path.isdir(m.group(1)):
                    shutil.rmtree(d, ignore_errors=True)
            except OSError:
                pass


def build(cmd, dirs, race=False, tags="verif"):
    """Returns the path of harness/cmd/<cmd> built against REPO's current working tree."""
    os.makedirs(CACHE, exist_ok=True)
    key = hashlib.sha256("|".join([repo_state(), harness_state(dirs + ["cmd/" + cmd]), tags,
                                   "race" if race else "norace", "cover" if verif.COVER_FLAGS() else ""]
                                  ).encode()).hexdigest()[:20]
    out = os.path.join(CACHE, "%s%s-%s" % (cmd, "-race" if race else "", key))
    if os.path.exists(out):
        os.utime(out)
        log("using cached %s" % os.path.basename(out))
        return out
    modfile = private_modfile()
    tmp = out + ".tmp%d" % os.getpid()
    gocmd = ["go", "build", "-modfile", modfile, "-tags", tags, "-o", tmp] + (["-race"] if race else []) \
        + verif.COVER_FLAGS() + ["./cmd/" + cmd]
    t0 = time.time()
    p = subprocess.run(gocmd, cwd=HARNESS, env=goenv(), capture_output=True, text=True)
    if p.returncode != 0:
        try:
            os.remove(tmp)
        except OSError:
            pass
        raise Infra("go build %s failed:\n%s" % (cmd, (p.stdout + p.stderr)[-6000:]))
    os.replace(tmp, out)
    log("built %s in %.1fs" % (os.path.basename(out), time.time() - t0))
    _prune()
    return out


def run(binary, args, timeout=1800, env=None, race_log=None):
    """Runs a driver; returns (stdout, stderr, returncode). With race_log the race detector writes
    its reports to <race_log>.<pid> and does not change the exit code."""
    e = goenv()
    e["VERIF_WORK"] = WORKROOT
    if race_log:
        e["GORACE"] = "log_path=%s halt_on_error=0 exitcode=0 history_size=3" % race_log
    if env:
        e.update({k: str(v) for k, v in env.items()})
    try:
        p = subprocess.run([binary] + [str(a) for a in args], capture_output=True, text=True, timeout=timeout, env=e)
    except subprocess.TimeoutExpired:
        raise Infra("driver timed out: %s %s" % (os.path.basename(binary), " ".join(map(str, args[:3]))))
    return p.stdout, p.stderr, p.returncode


def run_ok(binary, args, **kw):
    out, err, rc = run(binary, args, **kw)
    if rc != 0:
        raise Infra("driver %s %s failed (rc=%d):\n%s" % (os.path.basename(binary), " ".join(map(str, args[:2])),
                                                          rc, (out + err)[-6000:]))
    return out


RACE_SPLIT = re.compile(r"^==================$", re.M)


def race_reports(race_log):
    """Reads the race detector's log files <race_log>.<pid>; returns the list of report texts."""
    d, base = os.path.dirname(race_log), os.path.basename(race_log)
    reports = []
    for f in sorted(os.listdir(d)):
        if f.startswith(base + "."):
            txt = open(os.path.join(d, f), errors="replace").read()
            for block in RACE_SPLIT.split(txt):
                if "DATA RACE" in block:
                    reports.append(block.strip())
    return reports


def race_frames(report):
    """Function names and file:line pairs of the repository code in a race report."""
    frames = []
    for m in re.finditer(r"^\s+(\S*heimdall\S*)\(\)\n\s+(\S+):(\d+)", report, re.M):
        fn, path, line = m.group(1), m.group(2), m.group(3)
        if "/verifharness/" in fn:
            continue
        frames.append((fn.split("/")[-1], os.path.basename(path) + ":" + line))
    return frames
