#!/usr/bin/env python3
"""Evaluates seeded changes against the checks (development aid, not a registered check).

  tools/regress.py confirm <seed dir> ...   full confirmation of new seeds: demonstration passes on a clean scratch
                                            worktree, patch applies, builds, demonstration fails, existing tests of
                                            the touched packages pass, then the property's quick check runs against
                                            the worktree (VERIF_REPO); result in <seed dir>/result.json
  tools/regress.py check <seed dir> ...     only patch + check (re-evaluation of saved seeds; checks from meta caught_by)
Options: -j N parallel evaluations (default 4), --checks C01,C12 overrides the checks to run.

Every worktree lives under /tmp/regress-<pid>/ and is removed (with its build output) as soon as its
evaluation is over. Nothing here touches /repo's working tree.
"""
import argparse
import concurrent.futures
import json
import os
import re
import shutil
import subprocess
import sys

ROOT = os.path.dirname(os.path.dirname(os.path.abspath(__file__)))
ENV = dict(os.environ, GOFLAGS="-mod=mod", GOPROXY="off", GOSUMDB="off", GOTOOLCHAIN="local")
BASE = "/tmp/regress-%d" % os.getpid()


def sh(cmd, cwd=None, env=None, timeout=3000):
    try:
        p = subprocess.run(cmd, cwd=cwd, env=env or ENV, capture_output=True, text=True, timeout=timeout, shell=isinstance(cmd, str))
        return p.returncode, p.stdout + p.stderr
    except subprocess.TimeoutExpired as e:
        return 124, "timeout: %s" % e


def demo_info(sd):
    f = os.path.join(sd, "demo_test.go.txt")
    if not os.path.exists(f):
        return None
    first = open(f).readline()
    m = re.search(r"copy to:\s*(\S+)\s*;\s*run:\s*(.*)$", first)
    if not m:
        return None
    return f, m.group(1), m.group(2).strip()


def evaluate(sd, mode, checks):
    sd = os.path.abspath(sd)
    name = os.path.basename(sd)
    meta = json.load(open(os.path.join(sd, "meta.json")))
    prop = meta["property"]
    wt = os.path.join(BASE, name)
    res = {"seed": name, "property": prop}
    rc, out = sh(["git", "-C", "/repo", "worktree", "add", "--detach", wt, "HEAD"])
    if rc != 0:
        res["error"] = out[-500:]
        return res
    try:
        patch = os.path.join(sd, "patch.diff")
        di = demo_info(sd)
        if mode == "confirm":
            if di is None:
                res["error"] = "demonstration header not understood"
                return res
            src, dst, run = di
            shutil.copy(src, os.path.join(wt, dst))
            rc, out = sh(run, cwd=wt, timeout=900)
            res["demo_clean_rc"] = rc
            if rc != 0:
                res["demo_clean_out"] = out[-1500:]
        rc, out = sh(["git", "apply", patch], cwd=wt)
        res["apply_rc"] = rc
        if rc != 0:
            res["apply_out"] = out[-800:]
            return res
        if mode == "confirm":
            rc, out = sh(["go", "build", "./..."], cwd=wt, timeout=1200)
            res["build_rc"] = rc
            if rc != 0:
                res["build_out"] = out[-800:]
                return res
            rc, out = sh(run, cwd=wt, timeout=900)
            res["demo_patched_rc"] = rc
            os.remove(os.path.join(wt, dst))
            pk = set()
            for f in meta.get("files", []):
                if f.endswith(".go"):
                    pk.add("./" + os.path.dirname(f) + "/")
            pk |= {"./internal/rules/", "./internal/handler/..."}
            rc, out = sh(["go", "test", "-vet=off", "-count=1"] + sorted(pk), cwd=wt, timeout=2400)
            fails = sorted(set(re.findall(r"^--- FAIL: (\S+)", out, re.M)))
            # permission tests fail for root on the unchanged tree as well
            fails = [f for f in fails if f not in ("TestNewProvider", "TestProviderLifecycle")]
            res["existing_tests_rc"] = rc
            res["existing_test_failures"] = fails
        cks = checks or meta.get("caught_by") or [prop]
        if mode == "confirm":
            cks = checks or [prop]
        res["checks"] = {}
        for c in cks:
            e = dict(ENV, VERIF_REPO=wt)
            rc, out = sh([os.path.join(ROOT, "check"), c, "--tier", "quick"], cwd=ROOT, env=e, timeout=3000)
            v = re.findall(r"^VIOLATION.*$", out, re.M)
            res["checks"][c] = {"rc": rc, "violations": v[:3], "tail": out[-600:] if rc not in (0, 1) else ""}
            if rc == 1:
                break
        res["caught"] = any(v["rc"] == 1 for v in res["checks"].values())
        return res
    finally:
        sh(["git", "-C", "/repo", "worktree", "remove", "--force", wt])
        shutil.rmtree(wt, ignore_errors=True)
        with open(os.path.join(sd, "result.json") if mode == "confirm" else os.path.join(BASE, name + ".json"), "w") as f:
            json.dump(res, f, indent=1)


def main():
    ap = argparse.ArgumentParser()
    ap.add_argument("mode", choices=["confirm", "check"])
    ap.add_argument("seeds", nargs="+")
    ap.add_argument("-j", type=int, default=4)
    ap.add_argument("--checks")
    a = ap.parse_args()
    os.makedirs(BASE, exist_ok=True)
    checks = a.checks.split(",") if a.checks else None
    with concurrent.futures.ThreadPoolExecutor(a.j) as ex:
        for r in ex.map(lambda s: evaluate(s, a.mode, checks), a.seeds):
            print(json.dumps(r), flush=True)
    sh(["git", "-C", "/repo", "worktree", "prune"])
    shutil.rmtree(BASE, ignore_errors=True)


if __name__ == "__main__":
    sys.exit(main())
